#!/bin/sh
# tools/trymut.sh <patch.diff> <ID> [<ID>...]  -- apply a seeded change to /repo, run the quick checks, undo it.
P="$1"; shift
cd /repo || exit 2
if [ -n "$(git status --porcelain --untracked-files=no)" ]; then echo "/repo not clean"; exit 2; fi
git apply "$P" 2>/dev/null || patch -p1 --no-backup-if-mismatch -s -F3 < "$P" >/dev/null 2>&1 || { echo "PATCH DOES NOT APPLY"; git reset -q --hard HEAD; find . -name "*.rej" -delete; exit 2; }
git diff --stat | tail -1
cd /verif
for ID in "$@"; do
  ./check "$ID" quick --no-evidence 2>&1 | grep -E "^(VIOLATION|  instance=|HARNESS|INCONCL|KNOWN|C[0-9]+ quick)" | cut -c1-260 | head -${TRYMUT_LINES:-8}
done
git -C /repo reset -q --hard HEAD; find /repo/construct /repo/tests -name "*.rej" -delete -o -name "*.orig" -delete; git -C /repo status --porcelain --untracked-files=no
