#!/bin/sh
# tools/trymut_wt.sh <patch> <ID> [ID...]: like trymut.sh but never touches /repo's working tree:
# the patch is applied in a scratch worktree under /tmp and the checks run with --root.
set -u
P=$(readlink -f "$1"); shift
W=/tmp/mw/wt.$$
mkdir -p /tmp/mw
git -C /repo worktree add --detach -f "$W" HEAD >/dev/null 2>&1 || exit 9
( cd "$W" && git apply "$P" ) || { echo "patch does not apply"; git -C /repo worktree remove --force "$W"; exit 9; }
cd /verif
for id in "$@"; do
  ./check "$id" quick --no-evidence --root "$W" ${TRYMUT_OPTS:-} 2>&1 | grep -v "^WARNING" | grep -E "^(VIOLATION|HARNESS|C[0-9]+ quick|  instance)" | head -${TRYMUT_LINES:-4} | cut -c1-${TRYMUT_COLS:-260}
done
git -C /repo worktree remove --force "$W"
