#!/bin/sh
# tools/confirm_seed.sh <name> <patch.diff> <demo.py>   -- independent confirmation of a seeded change in a
# scratch worktree of /repo's HEAD: demo passes without the patch, fails with it, and the repository's
# test suite gives the same pass/fail sets with the patch as without.  Prints a JSON summary line.
NAME="$1"; PATCH="$(realpath "$2")"; DEMO="$(realpath "$3")"
W=/tmp/confirm/$NAME
rm -rf "$W"; mkdir -p /tmp/confirm
git -C /repo worktree add -q --detach "$W" HEAD || exit 2
cd "$W" || exit 2
mkdir -p seed && cp "$DEMO" seed/demo.py
/venv/bin/python seed/demo.py > seed/demo_pristine.out 2>&1; D0=$?
T="tests/test_core.py tests/test_expr.py tests/lib tests/gallery tests/deprecated_gallery tests/test_compiler.py tests/test_multiprocessing.py tests/test_benchmarks.py"
if [ ! -f /tmp/confirm/baseline_$(git rev-parse --short HEAD).txt ]; then
  /venv/bin/python -m pytest -q -p no:cacheprovider --benchmark-disable -rA $T 2>&1 | grep -E "^(PASSED|FAILED|ERROR|XFAIL|XPASS)" | sort > /tmp/confirm/baseline_$(git rev-parse --short HEAD).txt
fi
git apply "$PATCH" || { echo "{\"name\":\"$NAME\",\"applies\":false}"; cd /; git -C /repo worktree remove --force "$W"; exit 1; }
/venv/bin/python seed/demo.py > seed/demo_patched.out 2>&1; D1=$?
/venv/bin/python -m pytest -q -p no:cacheprovider --benchmark-disable -rA $T 2>&1 | grep -E "^(PASSED|FAILED|ERROR|XFAIL|XPASS)" | sort > seed/patched_tests.txt
if diff -q /tmp/confirm/baseline_$(git rev-parse --short HEAD).txt seed/patched_tests.txt >/dev/null; then SAME=true; else SAME=false; fi
NP=$(grep -c "^PASSED" seed/patched_tests.txt)
echo "{\"name\":\"$NAME\",\"applies\":true,\"demo_exit_pristine\":$D0,\"demo_exit_patched\":$D1,\"tests_same_as_baseline\":$SAME,\"tests_passed_with_patch\":$NP}"
cd /; git -C /repo worktree remove --force "$W"
