#!/usr/bin/env python3
"""Regenerates /verif/MANIFEST.json from the check modules that exist (checks/cNN.py)."""
import importlib
import json
import os
import sys

VERIF = os.path.dirname(os.path.dirname(os.path.abspath(__file__)))
sys.path.insert(0, VERIF)
IDS = ["C%02d" % i for i in range(1, 21)]
NOT_BUILT = "check not built yet (work in progress; see DESIGN.md section 10)"
NA = {}   # property id -> reason, for properties that cannot be decided by this technique

TECH = ("symbolic execution of the real construct source (symx: z3 bit-vector proxies, fork-by-replay DFS); "
        "every path ends in SMT queries 'path condition AND NOT obligation'; counterexamples replayed on the unmodified library")


def main():
    checks, na, served = [], [], []
    for pid in IDS:
        path = os.path.join(VERIF, "checks", pid.lower() + ".py")
        if pid in NA:
            na.append(dict(property_id=pid, reason=NA[pid]))
            continue
        if not os.path.exists(path):
            na.append(dict(property_id=pid, reason=NOT_BUILT))
            continue
        mod = importlib.import_module("checks." + pid.lower())
        if getattr(mod, "DISABLED", None):
            na.append(dict(property_id=pid, reason=mod.DISABLED))
            continue
        served.append(pid)
        level = getattr(mod, "LEVEL", "model_checking")
        doc = (mod.__doc__ or "").strip().split("\n\n")
        checks.append(dict(
            property_id=pid,
            quick_cmd="./check %s quick" % pid,
            thorough_cmd="./check %s thorough" % pid,
            evidence_file="evidence/%s.json" % pid,
            replay_cmd_template="./check %s quick --replay {path}" % pid,
            engine="symx",
            level_claimed=dict(category=level,
                               text=getattr(mod, "LEVEL_TEXT", " ".join(" ".join(doc[1:2]).split()) or doc[0]),
                               design_ref="DESIGN.md section 7, %s" % pid),
            level_note=getattr(mod, "LEVEL_NOTE", "bounded: holds for every value of the symbolic inputs within the bounds written to the evidence file, "
                               "for the enumerated construct programs; trusted base: z3, the environment models in symx/shims.py, "
                               "the oracle named in the module docstring; " + "; ".join(getattr(mod, "ASSUMPTIONS", []))),
            technique=getattr(mod, "TECHNIQUE", TECH),
        ))
    m = dict(
        version=1,
        setup_cmd="./setup.sh",
        hooks=dict(guard="CONSTRUCT_VERIF",
                   enable="none needed: the checks instrument an in-memory copy of /repo/construct at import time (AST passes + shims, symx/loader.py); no source hook exists in /repo and the guard variable is not read by the library",
                   baseline_off_cmd="cd /repo && /venv/bin/python -m pytest -ra -q -p no:cacheprovider --timeout=900 --continue-on-collection-errors",
                   source_commits=[], add_only=True),
        engines=[dict(name="symx", path="symx/", serves_properties=served,
                      kind_free_text="purpose-built symbolic executor for the real construct source over z3 bit-vectors "
                                     "(fork-by-replay DFS, one solver query per new branch and per obligation, decision-diagram tables, "
                                     "pure-Python models of io.BytesIO and struct)")],
        checks=checks,
        not_applicable=na,
        notes="See DESIGN.md. known_findings.json lists genuine defects (open / fixed). Exit codes: 0 held, 1 VIOLATION (replayed on the pristine library), 3 harness error / inconclusive.",
    )
    with open(os.path.join(VERIF, "MANIFEST.json"), "w") as f:
        json.dump(m, f, indent=1)
    print("claimed:", served)


if __name__ == "__main__":
    main()
