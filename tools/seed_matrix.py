#!/usr/bin/env python3
"""Runs every kept seeded change (seeded/<id>/patch.diff) against quick checks, in scratch worktrees of /repo's HEAD
(never touching /repo), and writes seeded/<id>/meta.json.  usage: seed_matrix.py [--all-checks] [ids...]"""
import json, os, subprocess, sys, re, concurrent.futures, shutil

VERIF = os.path.dirname(os.path.dirname(os.path.abspath(__file__)))
SEEDED = os.path.join(VERIF, "seeded")


def sh(cmd, **k):
    return subprocess.run(cmd, shell=True, capture_output=True, text=True, **k)


def run_seed(sid, checks):
    d = os.path.join(SEEDED, sid)
    w = "/tmp/seedrun/" + sid
    sh("git -C /repo worktree remove --force %s" % w)
    shutil.rmtree(w, ignore_errors=True)
    os.makedirs("/tmp/seedrun", exist_ok=True)
    r = sh("git -C /repo worktree add -q --detach %s HEAD" % w)
    if r.returncode:
        return sid, dict(error="worktree: " + r.stderr[-200:])
    res = {}
    try:
        a = sh("git -C %s apply %s" % (w, os.path.join(d, "patch.diff")))
        if a.returncode:
            return sid, dict(error="patch does not apply to current HEAD: " + a.stderr[-300:])
        for c in checks:
            p = sh("cd %s && ./check %s quick --no-evidence --root %s --jobs 6" % (VERIF, c, w))
            viol = [l for l in p.stdout.splitlines() if l.startswith("  instance=")]
            res[c] = dict(exit=p.returncode, first=(viol[0].strip()[:300] if viol else None), summary=p.stdout.strip().splitlines()[-1][:200] if p.stdout.strip() else "")
    finally:
        sh("git -C /repo worktree remove --force %s" % w)
    return sid, res


def main():
    args = [a for a in sys.argv[1:] if not a.startswith("--")]
    allchecks = "--all-checks" in sys.argv
    ids = args or sorted(os.listdir(SEEDED))
    jobs = []
    for sid in ids:
        prop = sid.split("-")[0]
        checks = ["C%02d" % i for i in range(1, 21)] if allchecks else [prop]
        jobs.append((sid, checks))
    head = sh("git -C /repo log --format=%h -1").stdout.strip()
    with concurrent.futures.ThreadPoolExecutor(int(os.environ.get("SEED_PAR", "3"))) as ex:
        for sid, res in ex.map(lambda j: run_seed(*j), jobs):
            d = os.path.join(SEEDED, sid)
            prop = sid.split("-")[0]
            meta_p = os.path.join(d, "meta.json")
            meta = json.load(open(meta_p)) if os.path.exists(meta_p) else {}
            meta.update(property=prop, source="independent sub-agent given only the property text and a scratch worktree",
                        repo_head_when_run=head)
            try:
                meta["confirmation"] = json.load(open(os.path.join(d, "confirm.json")))
            except Exception:
                pass
            readme = os.path.join(d, "README.agent.md")
            if os.path.exists(readme):
                meta["needs_to_manifest"] = " ".join(open(readme).read().split())[:900]
            if "error" in res:
                meta["check_results"] = res
            else:
                cr = meta.get("check_results", {})
                cr.update(res)
                meta["check_results"] = cr
                meta["caught_by"] = sorted(c for c, r in cr.items() if isinstance(r, dict) and r.get("exit") == 1)
            meta["what_was_run"] = ["tools/confirm_seed.sh (demo passes on HEAD, fails with the patch; repository test suite identical with the patch)",
                                    "./check <ID> quick --root <scratch worktree with the patch applied>"]
            json.dump(meta, open(meta_p, "w"), indent=1)
            print(sid, {c: (r.get("exit") if isinstance(r, dict) else r) for c, r in res.items()} if "error" not in res else res, flush=True)


if __name__ == "__main__":
    main()
