#!/bin/sh
# tools/keep_seed.sh <PROP> <k> <mutation dir> [ported patch]   -- copy a sub-agent's seeded change into
# /verif/seeded/<PROP>-m<k>/ and confirm it independently (scratch worktree); writes confirm.json there.
PROP="$1"; K="$2"; SRC="$3"; PORT="$4"
D=/verif/seeded/$PROP-m$K
mkdir -p "$D"
cp "$SRC/demo.py" "$D/demo.py"; cp "$SRC/README.md" "$D/README.agent.md" 2>/dev/null
if [ -n "$PORT" ]; then cp "$PORT" "$D/patch.diff"; cp "$SRC/patch.diff" "$D/patch.original-base.diff"; else cp "$SRC/patch.diff" "$D/patch.diff"; fi
/verif/tools/confirm_seed.sh "$PROP-m$K" "$D/patch.diff" "$D/demo.py" > "$D/confirm.json" 2>"$D/confirm.err"
[ -s "$D/confirm.err" ] || rm -f "$D/confirm.err"
