#!/usr/bin/env python3
"""tools/solver_diff.py [IDs...] -- cross-solver check of the encoding (development aid, DESIGN 5.6).

Runs the quick tier of the given checks with SYMX_DUMP_SMT set, so that a sample of the obligations the engine discharged
(path condition + negated obligation; z3 5.1 through the Python API said unsat) is written as SMT-LIB2, and asks the two other
solvers on this machine -- /usr/bin/z3 (4.8.12) and cvc5 1.0 -- the same questions.  Any `sat` is a disagreement (printed, exit 1);
timeouts / unknown are counted as inconclusive; an `(error` line is inconclusive too."""
import os, subprocess, sys, tempfile, shutil, collections

VERIF = os.path.dirname(os.path.dirname(os.path.abspath(__file__)))


def ask(cmd, path, t):
    try:
        p = subprocess.run(cmd + [path], capture_output=True, text=True, timeout=t + 5)
    except subprocess.TimeoutExpired:
        return "timeout"
    out = (p.stdout + p.stderr).strip().splitlines()
    if any("(error" in l for l in out):
        return "error"
    for l in out:
        if l.strip() in ("sat", "unsat", "unknown"):
            return l.strip()
    return "timeout" if not out else "error"


def main():
    ids = [a for a in sys.argv[1:] if not a.startswith("-")] or ["C03", "C10", "C13", "C15", "C08"]
    tally = collections.Counter()
    bad = []
    for cid in ids:
        d = tempfile.mkdtemp(prefix="smtdump_")
        env = dict(os.environ, SYMX_DUMP_SMT=d, SYMX_DUMP_LIMIT="12", SYMX_DUMP_EVERY="13")
        subprocess.run([os.path.join(VERIF, "check"), cid, "quick", "--no-evidence"], env=env, capture_output=True, text=True)
        files = sorted(os.listdir(d))[:120]
        for f in files:
            path = os.path.join(d, f)
            r1 = ask(["/usr/bin/z3", "-T:20"], path, 20)
            r2 = ask(["cvc5", "--tlimit=20000"], path, 20)
            tally[(cid, "z3-4.8.12", r1)] += 1
            tally[(cid, "cvc5", r2)] += 1
            if "sat" in (r1, r2):
                keep = os.path.join(VERIF, "replays", "solver_disagreement_" + f)
                os.makedirs(os.path.dirname(keep), exist_ok=True)
                shutil.copy(path, keep)
                bad.append((cid, f, r1, r2, keep))
        shutil.rmtree(d, ignore_errors=True)
        print(cid, {k[1] + ":" + k[2]: v for k, v in sorted(tally.items()) if k[0] == cid}, flush=True)
    for b in bad:
        print("DISAGREEMENT", b)
    return 1 if bad else 0


if __name__ == "__main__":
    sys.exit(main())
