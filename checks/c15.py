"""C15 -- byte transforms invert exactly and match their definition.

Programs: transform x parameter shape (key length, group size, inner construct, data length),
enumerated.  Symbolic: the key bytes / integer key, the rotation amount, all data bytes.
Oracles: XOR = data[i] xor key[i mod len] written with arithmetic on bits; rotation = big-integer
rotate-left of each group by (amount mod 8*group); byte reversal; per-byte bit reversal; codecs
as an uninterpreted function pair (build must emit C(inner bytes), parse must present D(stream)).
Obligations: parse presents the inner construct with the documented transform of the stream,
build emits the inverse transform of the inner bytes, build(parse(x)) == x, bad lengths rejected.
"""
from symx import api
from symx.values import mkbytes
from .common import mk
from .ref import bit_of

PROPERTY = "C15"
LEVEL = "model_checking"
INSTANCE_BUDGET_S = {"quick": 120, "thorough": 900}
EXHAUSTIVE = {"quick": False, "thorough": False}
BOUNDS = {
    "quick": dict(xor="integer key 0..255 symbolic; byte-string keys of length 1,2,3,5,63,64,65,80 with every byte symbolic (all-zero included); data 0..6 symbolic bytes",
                  rotate="amount symbolic in -4096..4096, group 1..4, data = 0..2 groups (+ non-multiple lengths, which must be rejected)",
                  swaps="ByteSwapped/BitsSwapped over Bytes(n), n = 1..16, and over a Struct; BitsSwapped over GreedyBytes (streaming path)",
                  codecs="uninterpreted function pair with D(C(x)) = x; payload 0..3 bytes"),
    "thorough": dict(xor="as quick, data 0..24", rotate="amount symbolic in -4096..4096, group 1..8, data 0..3 groups", swaps="as quick", codecs="payload 0..6"),
}
OUTSIDE = ["behaviour of the real zlib/gzip/bz2/lzma C libraries (modelled as an uninterpreted invertible pair)",
           "rotation groups > 8 bytes, XOR keys > 80 bytes"]
ASSUMPTIONS = ["codec stub: compress = uninterpreted function of the input bytes (output length len+2), decompress inverts remembered outputs"]


def instances(tier, seed):
    out = []
    dlens = range(0, 7) if tier == "quick" else [0, 1, 2, 3, 5, 8, 13, 24]
    for n in dlens:
        out.append(dict(name="xor int-key data=%d" % n, params=dict(kind="xor-int", n=n)))
    for l in (1, 2, 3, 5, 63, 64, 65, 80):
        for n in ([0, 1, 2, 3, 6] if tier == "quick" else [0, 1, 2, 3, 6, 9, 24]):
            out.append(dict(name="xor bytes-key len=%d data=%d" % (l, n), params=dict(kind="xor-bytes", l=l, n=n)))
    out.append(dict(name="xor bytes-key len=2 inner=Struct", params=dict(kind="xor-struct", l=2)))
    out.append(dict(name="xor int-key inner=Struct", params=dict(kind="xor-struct", l=0)))
    out.append(dict(name="xor literal zero key (fast path)", params=dict(kind="xor-literal", key="0000", n=3)))
    out.append(dict(name="xor literal 65 zero bytes", params=dict(kind="xor-literal", key="00" * 65, n=3)))
    out.append(dict(name="xor literal key ff00", params=dict(kind="xor-literal", key="ff00", n=5)))
    out.append(dict(name="xor bad key type", params=dict(kind="xor-badkey")))
    groups = range(1, 5) if tier == "quick" else range(1, 9)
    for g in groups:
        for k in ((0, 1, 2) if tier == "quick" else (0, 1, 2, 3)):
            out.append(dict(name="rotate group=%d groups=%d" % (g, k), params=dict(kind="rot", g=g, k=k), budget_s=240 if tier == "quick" else 900))
        if g > 1:
            out.append(dict(name="rotate group=%d bad length" % g, params=dict(kind="rot-bad", g=g)))
    out.append(dict(name="rotate group<1", params=dict(kind="rot-group0")))
    out.append(dict(name="rotate inner=Struct group=2", params=dict(kind="rot-struct")))
    for n in range(1, 17):
        out.append(dict(name="byteswapped Bytes(%d)" % n, params=dict(kind="bswap", n=n)))
        out.append(dict(name="bitsswapped Bytes(%d)" % n, params=dict(kind="bitswap", n=n)))
    out.append(dict(name="byteswapped Struct", params=dict(kind="bswap-struct")))
    for outer in ("BitsSwapped", "ByteSwapped"):
        for nb in (1, 2, 3):
            out.append(dict(name="%s over a %d-byte bit region" % (outer, nb), params=dict(kind="bswap-bitregion", outer=outer, nb=nb)))
    # swapped numeric fields in every byte order, the host's native order included
    for nm in ("Int16ub", "Int16ul", "Int16un", "Int16sn", "Int24ub", "Int24sl", "Int24un", "Int32un", "Int32sb", "Int64sn", "Int64ul", "Float32n", "Float32b", "Float64n", "Float16n",
               "BytesInteger(3, swapped=True)", "BytesInteger(5, signed=True)"):
        out.append(dict(name="byteswapped %s" % nm, params=dict(kind="bswap-field", sub=nm)))
        out.append(dict(name="bitsswapped %s" % nm, params=dict(kind="bitswap-field", sub=nm)))
    # transforms at a non-zero stream offset, inside a region, and after a previous call with other parameters
    for off in (1, 3):
        for l in (2, 3):
            out.append(dict(name="xor bytes-key len=%d at stream offset %d" % (l, off), params=dict(kind="xor-offset", l=l, off=off, n=5)))
    out.append(dict(name="xor bytes-key len=3 inside Prefixed after a header", params=dict(kind="xor-offset", l=3, off=2, n=4, region=True)))
    out.append(dict(name="rotate at stream offset 1, group 2", params=dict(kind="rot-offset", g=2, off=1)))
    for g1, g2 in ((1, 2), (2, 1), (2, 4), (4, 2), (3, 1)):
        out.append(dict(name="rotate: one instance, group from the context %d then %d" % (g1, g2), params=dict(kind="rot-twice", g1=g1, g2=g2)))
    out.append(dict(name="xor: one instance, key from the context, two calls", params=dict(kind="xor-twice")))
    for n in (0, 1, 3):
        out.append(dict(name="bitsswapped GreedyBytes data=%d (streaming)" % n, params=dict(kind="bitswap-greedy", n=n)))
    for enc in ("zlib", "gzip", "bzip2", "lzma"):
        for n in ((0, 1, 3) if tier == "quick" else (0, 1, 3, 6)):
            out.append(dict(name="compressed %s payload=%d" % (enc, n), params=dict(kind="codec", enc=enc, n=n, level=None)))
    out.append(dict(name="compressed zlib level=9 payload=2", params=dict(kind="codec", enc="zlib", n=2, level=9)))
    out.append(dict(name="compressed zlib inside Prefixed payload=0..2", params=dict(kind="codec-prefixed", enc="zlib")))
    return out


def x8(a, b):
    return sum(((bit_of(a, i) + bit_of(b, i)) % 2) * 2 ** i for i in range(8))


def rev8(b):
    return sum(bit_of(b, i) * 2 ** (7 - i) for i in range(8))


def rotl_group(items, amount):
    """rotate the big-endian integer formed by items left by amount (mod width)"""
    g = len(items)
    width = 8 * g
    G = 0
    for b in items:
        G = G * 256 + b
    r = amount % width
    R = ((G * (2 ** r)) % (2 ** width)) + (G // (2 ** (width - r)))
    return [(R // (256 ** (g - 1 - i))) % 256 for i in range(g)]


def harness(ctx, C, p):
    kind = p["kind"]
    if kind.startswith("xor"):
        return _xor(ctx, C, p)
    if kind.startswith("rot"):
        return _rot(ctx, C, p)
    if kind.startswith("bswap") or kind.startswith("bitswap"):
        return _swap(ctx, C, p)
    return _codec(ctx, C, p)


def _xor(ctx, C, p):
    kind = p["kind"]
    if kind == "xor-badkey":
        d = mk(C, "ProcessXor(this.key, GreedyBytes)")
        r = api.outcome(d.parse, b"ab", key="zz")
        ctx.check("non int/bytes key is rejected with StringError", (not r.ok) and isinstance(r.exc, C.StringError))
        r = api.outcome(d.build, b"ab", key=None)
        ctx.check("non int/bytes key is rejected with StringError on build", (not r.ok) and isinstance(r.exc, C.StringError))
        return "ok"
    if kind == "xor-literal":
        key = bytes.fromhex(p["key"])
        d = mk(C, "ProcessXor(%r, GreedyBytes)" % key)
        data = ctx.bytes("data", p["n"])
        exp = mkbytes([x8(b, key[i % len(key)]) for i, b in enumerate(data)])
        ctx.check("parse presents data xor key", ctx.eq(d.parse(data), exp))
        ctx.check("build emits value xor key", ctx.eq(d.build(data), exp))
        return "ok"
    if kind == "xor-struct":
        d = mk(C, "ProcessXor(this.key, Struct('a'/Byte, 'b'/Int16ub))")
        key = ctx.bytes("key", p["l"]) if p["l"] else ctx.int("key", 0, 255)
        data = ctx.bytes("data", 3)
        kb = list(key) if p["l"] else [key]
        plain = [x8(b, kb[i % len(kb)]) for i, b in enumerate(data)]
        v = d.parse(data, key=key)
        ctx.check("inner Struct sees the xored stream", api.and_terms([ctx.eq(v.a, plain[0]), ctx.eq(v.b, plain[1] * 256 + plain[2])]))
        ctx.check("build inverts parse", ctx.eq(d.build(v, key=key), data))
        ctx.check("sizeof passes through", d.sizeof(key=0) == 3)
        return "ok"
    if kind == "xor-offset":
        # the key cycle starts at the first byte of the transformed region, wherever that region lies in the stream
        key = ctx.bytes("key", p["l"])
        kb = list(key)
        off, n = p["off"], p["n"]
        if p.get("region"):
            d = mk(C, "Struct('h'/Bytes(%d), 'p'/Prefixed(Byte, ProcessXor(this._.key if False else this._params.key, GreedyBytes)), 't'/Byte)" % off)
        else:
            d = mk(C, "Struct('h'/Bytes(%d), 'x'/ProcessXor(this._params.key, GreedyBytes))" % off)
        head, body = ctx.bytes("head", off), ctx.bytes("body", n)
        exp = mkbytes([x8(b, kb[i % len(kb)]) for i, b in enumerate(body)])
        if p.get("region"):
            t = ctx.int("t", 0, 255)
            data = head + mkbytes([n]) + body + mkbytes([t])
            v = d.parse(data, key=key)
            ctx.check("parse presents region xor key cycled from the region's first byte", api.and_terms([ctx.eq(v.p, exp), ctx.eq(v.t, t)]))
            ctx.check("build inverts parse", ctx.eq(d.build(v, key=key), data))
        else:
            data = head + body
            v = d.parse(data, key=key)
            ctx.check("parse presents data xor key cycled from the transform's first byte", ctx.eq(v.x, exp))
            ctx.check("build emits the same encoding", ctx.eq(d.build(dict(h=head, x=exp), key=key), data))
            ctx.check("parse_stream of the bare transform at a non-zero offset", ctx.eq(_at(ctx, C, "ProcessXor(this.key, GreedyBytes)", data, off, key=key), exp))
        return "ok"
    if kind == "xor-twice":
        d = mk(C, "ProcessXor(this.key, GreedyBytes)")
        k1, k2 = ctx.bytes("key1", 2), ctx.bytes("key2", 3)
        data = ctx.bytes("data", 4)
        d.parse(data, key=k1)
        d.build(data, key=k1)
        exp = mkbytes([x8(b, list(k2)[i % 3]) for i, b in enumerate(data)])
        ctx.check("second call, other key: parse", ctx.eq(d.parse(data, key=k2), exp))
        ctx.check("second call, other key: build", ctx.eq(d.build(data, key=k2), exp))
        return "ok"
    d = mk(C, "ProcessXor(this.key, GreedyBytes)")
    n = p["n"]
    data = ctx.bytes("data", n)
    if kind == "xor-int":
        key = ctx.int("key", 0, 255)
        kb = [key]
    else:
        key = ctx.bytes("key", p["l"])
        kb = list(key)
    exp = mkbytes([x8(b, kb[i % len(kb)]) for i, b in enumerate(data)])
    got = d.parse(data, key=key)
    ctx.observe("parsed", got)
    ctx.check("parse presents data xor cycled key", ctx.eq(got, exp))
    built = d.build(data, key=key)
    ctx.check("build emits value xor cycled key", ctx.eq(built, exp))
    ctx.check("build inverts parse", ctx.eq(d.build(got, key=key), data))
    return "ok"


def _rot(ctx, C, p):
    kind = p["kind"]
    if kind == "rot-group0":
        d = mk(C, "ProcessRotateLeft(this.amount, this.group, GreedyBytes)")
        g = ctx.int("group", -3, 0)
        a = ctx.int("amount", -20, 20)
        r = api.outcome(d.parse, b"abcd", amount=a, group=g)
        ctx.check("group < 1 rejected on parse", (not r.ok) and isinstance(r.exc, C.RotationError))
        r = api.outcome(d.build, b"abcd", amount=a, group=g)
        ctx.check("group < 1 rejected on build", (not r.ok) and isinstance(r.exc, C.RotationError))
        return "ok"
    if kind == "rot-struct":
        d = mk(C, "ProcessRotateLeft(this.amount, 2, Struct('a'/Int16ub, 'b'/Int16ul))")
        a = ctx.int("amount", -64, 64)
        data = ctx.bytes("data", 4)
        exp = rotl_group(list(data[0:2]), a) + rotl_group(list(data[2:4]), a)
        v = d.parse(data, amount=a)
        ctx.check("inner Struct sees rotated groups", api.and_terms([ctx.eq(v.a, exp[0] * 256 + exp[1]), ctx.eq(v.b, exp[3] * 256 + exp[2])]))
        ctx.check("build inverts parse", ctx.eq(d.build(v, amount=a), data))
        return "ok"
    if kind == "rot-twice":
        # one instance whose group size comes from the context: the second call uses its own group, not the first one's
        d = mk(C, "ProcessRotateLeft(this.amount, this.group, GreedyBytes)")
        a = ctx.int("amount", -64, 64)
        g1, g2 = p["g1"], p["g2"]
        warm = ctx.bytes("warm", 4 if 4 % g1 == 0 else g1)
        api.outcome(d.parse, warm, amount=a, group=g1)
        api.outcome(d.build, warm, amount=a, group=g1)
        data = ctx.bytes("data", g2 * (4 // g2 if g2 <= 4 else 1))
        exp, expb = [], []
        for j in range(len(data) // g2):
            exp += rotl_group(list(data[j * g2:(j + 1) * g2]), a)
            expb += rotl_group(list(data[j * g2:(j + 1) * g2]), -a)
        rp, rb = api.outcome(d.parse, data, amount=a, group=g2), api.outcome(d.build, data, amount=a, group=g2)
        ctx.check("second call with another group size: parse rotates each of ITS groups", rp.ok and ctx.fork(ctx.eq(rp.value, mkbytes(exp))))
        ctx.check("second call with another group size: build", rb.ok and ctx.fork(ctx.eq(rb.value, mkbytes(expb))))
        return "ok"
    if kind == "rot-offset":
        g, off = p["g"], p["off"]
        a = ctx.int("amount", -64, 64)
        head, body = ctx.bytes("head", off), ctx.bytes("body", 2 * g)
        exp = rotl_group(list(body[:g]), a) + rotl_group(list(body[g:]), a)
        got = _at(ctx, C, "ProcessRotateLeft(this.amount, %d, GreedyBytes)" % g, head + body, off, amount=a)
        ctx.check("groups are counted from the transform's first byte, not from the start of the stream", ctx.eq(got, mkbytes(exp)))
        return "ok"
    g = p["g"]
    d = mk(C, "ProcessRotateLeft(this.amount, %d, GreedyBytes)" % g)
    a = ctx.int("amount", -4096, 4096)
    if kind == "rot-bad":
        n = ctx.choice("len", [x for x in range(1, 2 * g) if x % g])
        data = ctx.bytes("data", n)
        r = api.outcome(d.parse, data, amount=a)
        ctx.check("length not a multiple of the group is rejected on parse", (not r.ok) and isinstance(r.exc, C.RotationError))
        r = api.outcome(d.build, data, amount=a)
        ctx.check("length not a multiple of the group is rejected on build", (not r.ok) and isinstance(r.exc, C.RotationError))
        return "ok"
    k = p["k"]
    data = ctx.bytes("data", g * k)
    got = d.parse(data, amount=a)
    ctx.observe("parsed", got)
    exp = []
    for j in range(k):
        exp += rotl_group(list(data[j * g:(j + 1) * g]), a)
    ctx.check("parse presents each group rotated left by amount", ctx.eq(got, mkbytes(exp)))
    built = d.build(data, amount=a)
    expb = []
    for j in range(k):
        expb += rotl_group(list(data[j * g:(j + 1) * g]), -a)
    ctx.check("build emits each group rotated right by amount", ctx.eq(built, mkbytes(expb)))
    ctx.check("build inverts parse", ctx.eq(d.build(got, amount=a), data))
    return "ok"


def _at(ctx, C, source, data, off, **kw):
    st = ctx.stream(data)
    st.seek(off)
    return mk(C, source).parse_stream(st, **kw)


def _swap(ctx, C, p):
    kind = p["kind"]
    if kind == "bswap-struct":
        d = mk(C, "ByteSwapped(Struct('a'/Byte, 'b'/Int16ub, 'c'/Bytes(2)))")
        data = ctx.bytes("data", 5)
        v = d.parse(data)
        r = list(data)[::-1]
        ctx.check("inner Struct sees reversed bytes", api.and_terms([ctx.eq(v.a, r[0]), ctx.eq(v.b, r[1] * 256 + r[2]), ctx.eq(v.c, mkbytes(r[3:5]))]))
        ctx.check("build inverts parse", ctx.eq(d.build(v), data))
        return "ok"
    if kind == "bitswap-greedy":
        d = mk(C, "BitsSwapped(GreedyBytes)")
        data = ctx.bytes("data", p["n"])
        exp = mkbytes([rev8(b) for b in data])
        ctx.check("streaming path: parse presents bit-reversed bytes", ctx.eq(d.parse(data), exp))
        ctx.check("streaming path: build emits bit-reversed bytes", ctx.eq(d.build(data), exp))
        return "ok"
    if kind == "bswap-bitregion":
        # composition: the outer swap transforms the bytes first, the bit region then reads them MSB-first
        nb, outer = p["nb"], p["outer"]
        inner_src = "Bitwise(Struct('a'/BitsInteger(3), 'b'/BitsInteger(%d)))" % (8 * nb - 3)
        d, inner = mk(C, "%s(%s)" % (outer, inner_src)), mk(C, inner_src)
        data = ctx.bytes("data", nb)
        tr = mkbytes(list(data)[::-1]) if outer == "ByteSwapped" else mkbytes([rev8(b) for b in data])
        v, w = d.parse(data), inner.parse(tr)
        ctx.check("the bit region sees the swapped bytes (byte order kept by BitsSwapped, bit order kept by ByteSwapped)", api.and_terms([ctx.eq(v.a, w.a), ctx.eq(v.b, w.b)]))
        ctx.check("build inverts parse", ctx.eq(d.build(v), data))
        return "ok"
    if kind in ("bswap-field", "bitswap-field"):
        # the swapped field reads the transformed bytes: parse(x) of the wrapper == parse(T(x)) of the field, build == T(build)
        sub = mk(C, p["sub"])
        n = sub.sizeof()
        d = mk(C, ("ByteSwapped(%s)" if kind == "bswap-field" else "BitsSwapped(%s)") % p["sub"])
        data = ctx.bytes("data", n)
        tr = mkbytes(list(data)[::-1]) if kind == "bswap-field" else mkbytes([rev8(b) for b in data])
        ctx.check("parse of the wrapper is the field's parse of the transformed bytes", ctx.eq(d.parse(data), sub.parse(tr)))
        v = sub.parse(data)
        plain = sub.build(v)
        want = mkbytes(list(plain)[::-1]) if kind == "bswap-field" else mkbytes([rev8(b) for b in plain])
        ctx.check("build of the wrapper is the transformed encoding of the field", ctx.eq(d.build(v), want))
        ctx.check("sizeof", d.sizeof() == n)
        return "ok"
    n = p["n"]
    data = ctx.bytes("data", n)
    if kind == "bswap":
        d = mk(C, "ByteSwapped(Bytes(%d))" % n)
        exp = mkbytes(list(data)[::-1])
    else:
        d = mk(C, "BitsSwapped(Bytes(%d))" % n)
        exp = mkbytes([rev8(b) for b in data])
    got = d.parse(data)
    ctx.observe("parsed", got)
    ctx.check("parse presents the swapped bytes", ctx.eq(got, exp))
    ctx.check("build emits the swapped bytes", ctx.eq(d.build(data), exp))
    ctx.check("build inverts parse", ctx.eq(d.build(got), data))
    ctx.check("sizeof", d.sizeof() == n)
    short = api.outcome(d.parse, data[:n - 1])
    ctx.check("short input rejected", (not short.ok) and isinstance(short.exc, C.StreamError))
    return "ok"


class CodecStub:
    """uninterpreted invertible codec: compress(x) = C(x) (len(x)+2 bytes), decompress(C(x)) = x"""

    def __init__(self, ctx, name):
        self.ctx = ctx
        self.name = name
        self.pairs = []
        self.levels = []

    def compress(self, data, level=None):
        self.levels.append(level)
        out = self.ctx.uf("C_" + self.name, data, len(data) + 2)
        self.pairs.append((data, out))
        return out

    def decompress(self, data):
        for x, c in self.pairs:
            if len(c) == len(data) and self.ctx.fork(self.ctx.eq(c, data)):
                return x
        n = max(0, len(data) - 2)
        return self.ctx.uf("D_" + self.name, data, n)


def _codec(ctx, C, p):
    enc = p["enc"]
    if p["kind"] == "codec-prefixed":
        d = mk(C, "Struct('a'/Prefixed(VarInt, Compressed(GreedyBytes, %r)), 'b'/Byte)" % enc)
        comp = d.subcons[0].subcon.subcon
        stub = CodecStub(ctx, enc)
        comp.lib = stub
        n = ctx.choice("len", [0, 1, 2])
        payload = ctx.bytes("payload", n)
        b = ctx.int("b", 0, 255)
        built = d.build(dict(a=payload, b=b))
        exp = [len(payload) + 2] + list(stub.pairs[0][1]) + [b]
        ctx.check("build emits prefix + C(payload) + next member", ctx.eq(built, mkbytes(exp)))
        v = d.parse(built)
        ctx.check("parse(build(x)) returns x", api.and_terms([ctx.eq(v.a, payload), ctx.eq(v.b, b)]))
        return "ok"
    level = p["level"]
    d = mk(C, "Compressed(GreedyBytes, %r%s)" % (enc, "" if level is None else ", level=%d" % level))
    stub = CodecStub(ctx, enc)
    d.lib = stub
    payload = ctx.bytes("payload", p["n"])
    built = d.build(payload)
    ctx.check("the codec was applied exactly once on build", len(stub.pairs) == 1)
    ctx.check("build emits C(inner bytes)", api.and_terms([ctx.eq(built, stub.pairs[0][1]), ctx.eq(stub.pairs[0][0], payload)]))
    ctx.check("compression level is passed through", stub.levels[0] == (None if enc == "lzma" else level))
    got = d.parse(built)
    ctx.check("parse(build(x)) returns x", ctx.eq(got, payload))
    other = ctx.bytes("stream", p["n"] + 2)
    got2 = d.parse(other)
    ctx.check("parse presents D(stream) to the inner construct", ctx.eq(got2, stub.decompress(other)))
    return "ok"
