"""C08 -- delimited regions confine their inner construct; offsets stay absolute.

Programs: nestings (depth 1..3) of Prefixed / FixedSized / NullTerminated (include, consume, require,
1- and 2-byte terminators) / NullStripped / OffsettedEnd / ProcessXor around greedy and non-greedy
inner constructs, at start offsets 0, 1, 3 of the outer stream (enumerated).  Symbolic: every byte of
the outer stream (junk prefix, length fields, payload).  Oracle: region extents computed from each
delimiter's documented contract (checks/c08.region), independent of streams.
Obligations: an inner greedy construct sees all and only the region's bytes; the outer stream ends
exactly where the contract says whatever the inner construct consumed; Tell / RawCopy offsets /
Pointer targets observed inside regions are absolute offsets of the outermost stream.
"""
import random
from symx import api
from symx.values import mkbytes
from .common import mk
from .ref import Reject, same, xor_items

PROPERTY = "C08"
LEVEL = "model_checking"
INSTANCE_BUDGET_S = {"quick": 90, "thorough": 600}
EXHAUSTIVE = {"quick": False, "thorough": False}
BOUNDS = {
    "quick": dict(nesting="all depth-1 (12 delimiters x 6 inner kinds x offsets 0,1,3); all depth-2 pairs at offset 1 for 3 inner kinds; 150 seeded depth-3 nestings",
                  stream="start offset + 6 symbolic bytes (every byte symbolic, so region lengths 0..overlong are all covered)"),
    "thorough": dict(nesting="all depth-1 and depth-2 (x 6 inner kinds x 3 offsets), 1500 seeded depth-3/4 nestings", stream="start offset + 8 symbolic bytes"),
}
OUTSIDE = ["nesting depth > 4", "NullTerminated(require=False) with multi-byte terminator (a partial final unit is consumed but not delivered: implementation detail without documented contract)"]
ASSUMPTIONS = ["oracle: region() below, written from the class docstrings"]

# delimiter descriptors: (tag, source template with {} for the inner construct, parameters)
DELIMS = [
    ("prefixed", "Prefixed(Byte, {})", {}),
    ("prefixed_incl", "Prefixed(Byte, {}, includelength=True)", {}),
    ("fixed", "FixedSized(3, {})", {"n": 3}),
    ("nt", "NullTerminated({})", dict(term=b"\x00", include=False, consume=True, require=True)),
    ("nt_incl", "NullTerminated({}, include=True)", dict(term=b"\x00", include=True, consume=True, require=True)),
    ("nt_noconsume", "NullTerminated({}, consume=False)", dict(term=b"\x00", include=False, consume=False, require=True)),
    ("nt_incl_noconsume", "NullTerminated({}, include=True, consume=False)", dict(term=b"\x00", include=True, consume=False, require=True)),
    ("nt_norequire", "NullTerminated({}, term=b'\\xff', require=False)", dict(term=b"\xff", include=False, consume=True, require=False)),
    ("nt2", "NullTerminated({}, term=b'\\r\\n')", dict(term=b"\r\n", include=False, consume=True, require=True)),
    ("ns", "NullStripped({})", dict(pad=b"\x00")),
    ("ns2", "NullStripped({}, pad=b'\\x00\\x00')", dict(pad=b"\x00\x00")),
    ("oe", "OffsettedEnd(-1, {})", dict(end=-1)),
    ("oe0", "OffsettedEnd(0, {})", dict(end=0)),
    ("oe_t", "OffsettedEnd(-this._params.t, {})", {}),
    ("xor", "ProcessXor(this._params.key, {})", {}),
]
DMAP = {d[0]: d for d in DELIMS}
INNERS = {
    "greedybytes": "GreedyBytes",
    "greedyrange": "GreedyRange(Byte)",
    "byte": "Byte",
    "tells": "Struct('t0'/Tell, 'b'/Byte, 't1'/Tell, 'g'/GreedyBytes)",
    "rawcopy": "RawCopy(Int16ub)",
    "pointer": None,     # Pointer(<absolute offset>, Byte) -- offset filled in per instance
    # a look at the outermost stream from inside the region (Pointer with stream=): neither the region nor the outer stream may move
    "sideptr": "Struct('a'/Byte, 'm'/Pointer(0, Byte, stream=this._params.outer), 'here'/Tell, 'rest'/GreedyBytes)",
    # zero-size members that observe the END of the region, in a construct whose static size (3) is exactly FixedSized(3, ..)'s length
    "endobs": "Struct('id'/Byte, 'whole'/Peek(GreedyBytes), 'last'/Pointer(-1, Byte), 'v'/Int16ub)",
}


def x8(a, b):
    from .ref import bit_of
    return sum(((bit_of(a, i) + bit_of(b, i)) % 2) * 2 ** i for i in range(8))


def region(tag, buf, pos, base, key, t=0):
    """(region items, absolute offset of the region's first byte, position in buf after the delimiter)
    buf: list of byte items of the enclosing region, pos: index into buf, base: absolute offset of buf[0]"""
    if tag in ("prefixed", "prefixed_incl"):
        if pos + 1 > len(buf):
            raise Reject("short")
        n = buf[pos]
        if tag == "prefixed_incl":
            n = n - 1
            if n < 0:
                raise Reject("short")
        if n > len(buf) - pos - 1:
            raise Reject("short")
        n = int(n)
        return list(buf[pos + 1:pos + 1 + n]), base + pos + 1, pos + 1 + n
    if tag == "fixed":
        if pos + 3 > len(buf):
            raise Reject("short")
        return list(buf[pos:pos + 3]), base + pos, pos + 3
    if tag.startswith("nt"):
        P = DMAP[tag][2]
        term, u = list(P["term"]), len(P["term"])
        p = pos
        data = []
        while True:
            if p + u > len(buf):
                if P["require"]:
                    raise Reject("short")
                return data, base + pos, len(buf)
            unit = list(buf[p:p + u])
            if same(unit, term):
                if P["include"]:
                    data = data + unit
                return data, base + pos, (p + u if P["consume"] else p)
            data = data + unit
            p += u
    if tag == "ns":
        data = list(buf[pos:])
        while data and same([data[-1]], [0]):
            data.pop()
        return data, base + pos, len(buf)
    if tag == "ns2":
        # two-byte pad: a ragged last byte goes only if it is a pad byte, then whole pad units go; payload bytes never do
        data = list(buf[pos:])
        if len(data) % 2 and same([data[-1]], [0]):
            data.pop()
        while len(data) >= 2 and same(data[-2:], [0, 0]):
            data = data[:-2]
        return data, base + pos, len(buf)
    if tag in ("oe", "oe0", "oe_t"):
        end = len(buf) - {"oe": 1, "oe0": 0, "oe_t": t}[tag]
        if end < pos:
            raise Reject("short")
        return list(buf[pos:end]), base + pos, end
    if tag == "xor":
        return [x8(b, key) for b in buf[pos:]], base + pos, len(buf)
    raise ValueError(tag)


def instances(tier, seed):
    rnd = random.Random(seed * 31 + 5)
    out = []
    tags = [d[0] for d in DELIMS]
    n = 6 if tier == "quick" else 8

    def add(chain, inner, s):
        out.append(dict(name="%s(%s) @%d" % ("(".join(chain), inner, s), params=dict(chain=chain, inner=inner, s=s, n=n)))
    for t in tags:
        for i in INNERS:
            for s in (0, 1, 3):
                add([t], i, s)
    for a in tags:
        for b in tags:
            for i in (("tells", "greedybytes", "pointer") if tier == "quick" else INNERS):
                for s in ((1,) if tier == "quick" else (0, 1, 3)):
                    add([a, b], i, s)
    for a in tags:
        for b in ("nt_noconsume", "nt_incl_noconsume", "nt", "prefixed", "fixed"):
            out.append(dict(name="%s(struct(%s(greedybytes), rest)) @1" % (a, b), params=dict(chain=[a, b], inner="greedybytes", s=1, n=n, tail=True)))
    for a in ("prefixed", "prefixed_incl", "fixed"):
        for i in ("tells", "rawcopy", "pointer", "greedybytes"):
            for s0 in (0, 2):
                out.append(dict(name="compiled %s(%s) @%d" % (a, i, s0), params=dict(chain=[a], inner=i, s=s0, n=n, compiled=True)))
    seen = set(o["name"] for o in out)
    for _ in range(150 if tier == "quick" else 1500):
        depth = rnd.choice([3, 3, 4]) if tier != "quick" else 3
        chain = [rnd.choice(tags) for _ in range(depth)]
        i, s = rnd.choice(sorted(INNERS)), rnd.choice([0, 1, 3])
        nm = "%s(%s) @%d" % ("(".join(chain), i, s)
        if nm not in seen:
            seen.add(nm)
            add(chain, i, s)
    return out


def harness(ctx, C, p):
    chain, inner, s, n = p["chain"], p["inner"], p["s"], p["n"]
    data = ctx.bytes("data", s + n)
    key = ctx.int("key", 0, 255) if "xor" in chain else 0
    t = ctx.concretize(ctx.int("t", 0, 2)) if "oe_t" in chain else 0
    # oracle: walk the chain on the byte items
    buf, pos, base = list(data), s, 0
    expect_end = None
    rejected = None
    try:
        for depth, tag in enumerate(chain):
            sub, sub_base, after = region(tag, buf, pos, base, key, t)
            if depth == 0:
                expect_end = after
            buf, pos, base = sub, 0, sub_base
    except Reject as e:
        rejected = e
    if inner == "pointer":
        target = base + 1 if rejected is None else 0
        inner_src = "Pointer(%d, Byte)" % target
    else:
        inner_src = INNERS[inner]
    if p.get("tail"):
        # the inner delimiter is followed, inside the outer region, by a member that reads the rest of that region: where the
        # inner delimiter leaves the ENCLOSING (sub)stream becomes visible
        a, b = chain
        try:
            buf0, base0, after0 = region(a, list(data), s, 0, key, t)
            rej0 = None
        except Reject as e:
            rej0 = e
        d = mk(C, DMAP[a][1].format("Struct('d'/%s, 'rest'/GreedyBytes)" % DMAP[b][1].format("GreedyBytes")))
        st = ctx.stream(data)
        st.seek(s)
        r = api.outcome(d.parse_stream, st, key=key, t=t)
        if rej0 is not None:
            ctx.check("a region that does not fit / lacks its terminator is rejected", (not r.ok) and isinstance(r.exc, C.ConstructError))
            return "region-reject"
        try:
            buf1, base1, after1 = region(b, buf0, 0, base0, key, t)
        except Reject:
            ctx.check("an inner region that does not fit is rejected", (not r.ok) and isinstance(r.exc, C.ConstructError))
            return "region-reject"
        ctx.check("parse succeeds", r.ok)
        ctx.check("the inner delimiter sees its region", ctx.eq(r.value.d, mkbytes(buf1)))
        ctx.check("the member after the inner delimiter starts where the inner delimiter's contract leaves the enclosing region", ctx.eq(r.value.rest, mkbytes(buf0[after1:])))
        ctx.check("the outer stream stands where the outer delimiter's contract says", st.tell() == after0)
        return "ok"
    source = inner_src
    for tag in reversed(chain):
        source = DMAP[tag][1].format(source)
    d = mk(C, source)
    if p.get("compiled"):
        if rejected is not None:
            return "region-reject"        # compiled parsers do not check short reads (documented): nothing claimed
        d = d.compile()
    st = ctx.stream(data)
    st.seek(s)
    r = api.outcome(d.parse_stream, st, key=key, t=t, outer=st)
    if rejected is not None:
        ctx.check("a region that does not fit / lacks its terminator is rejected", (not r.ok) and isinstance(r.exc, C.ConstructError))
        return "region-reject"
    region_bytes = mkbytes(buf)
    if inner == "greedybytes":
        ctx.check("parse succeeds", r.ok)
        ctx.check("inner GreedyBytes sees all and only the region's bytes", ctx.eq(r.value, region_bytes))
    elif inner == "greedyrange":
        ctx.check("parse succeeds", r.ok)
        ctx.check("inner GreedyRange sees all and only the region's bytes", ctx.eq(list(r.value), list(buf)))
    elif inner == "byte":
        if len(buf) < 1:
            if p.get("compiled"):
                return "inner-reject"        # compiled parsers do not check short reads (documented)
            ctx.check("empty region: inner Byte fails with StreamError", (not r.ok) and isinstance(r.exc, C.StreamError))
            return "inner-reject"
        ctx.check("parse succeeds", r.ok)
        ctx.check("inner Byte reads the region's first byte", ctx.eq(r.value, buf[0]))
    elif inner == "tells":
        if len(buf) < 1:
            if p.get("compiled"):
                return "inner-reject"        # compiled parsers do not check short reads (documented)
            ctx.check("empty region: inner Byte fails with StreamError", (not r.ok) and isinstance(r.exc, C.StreamError))
            return "inner-reject"
        ctx.check("parse succeeds", r.ok)
        v = r.value
        ctx.check("Tell inside the region reports absolute offsets of the outermost stream",
                  api.and_terms([ctx.eq(v.t0, base), ctx.eq(v.t1, base + 1)]))
        ctx.check("GreedyBytes after a Byte sees the rest of the region", ctx.eq(v.g, mkbytes(buf[1:])))
    elif inner == "rawcopy":
        if len(buf) < 2:
            if p.get("compiled"):
                return "inner-reject"        # compiled parsers do not check short reads (documented)
            ctx.check("short region: inner Int16ub fails with StreamError", (not r.ok) and isinstance(r.exc, C.StreamError))
            return "inner-reject"
        ctx.check("parse succeeds", r.ok)
        v = r.value
        ctx.check("RawCopy offsets are absolute and data is the region slice",
                  api.and_terms([ctx.eq(v.offset1, base), ctx.eq(v.offset2, base + 2), ctx.eq(v.length, 2), ctx.eq(v.data, mkbytes(buf[:2])),
                                 ctx.eq(v.value, buf[0] * 256 + buf[1])]))
    elif inner == "sideptr":
        if len(buf) < 1:
            ctx.check("empty region: inner Byte fails with StreamError", (not r.ok) and isinstance(r.exc, C.StreamError))
            return "inner-reject"
        ctx.check("parse succeeds", r.ok)
        v = r.value
        ctx.check("a Pointer into the outermost stream reads that stream's byte and moves neither stream",
                  api.and_terms([ctx.eq(v.a, buf[0]), ctx.eq(v.m, data[0]), ctx.eq(v.here, base + 1), ctx.eq(v.rest, mkbytes(buf[1:]))]))
    elif inner == "endobs":
        if len(buf) < 3:
            ctx.check("short region: rejected with StreamError", (not r.ok) and isinstance(r.exc, C.StreamError))
            return "inner-reject"
        ctx.check("parse succeeds", r.ok)
        v = r.value
        ctx.check("members observing the end of the stream see the end of the region, not beyond",
                  api.and_terms([ctx.eq(v.id, buf[0]), ctx.eq(v.whole, mkbytes(buf[1:])), ctx.eq(v.last, buf[-1]), ctx.eq(v.v, buf[1] * 256 + buf[2])]))
    elif inner == "pointer":
        if len(buf) < 2:
            if p.get("compiled"):
                return "inner-reject"        # compiled parsers do not check short reads (documented)
            ctx.check("Pointer target outside the region is rejected", (not r.ok) and isinstance(r.exc, C.StreamError))
            return "inner-reject"
        ctx.check("parse succeeds", r.ok)
        ctx.check("Pointer target is an absolute offset of the outermost stream", ctx.eq(r.value, buf[1]))
    ctx.check("the outer stream stands where the delimiter's contract says, whatever the inner construct consumed", st.tell() == expect_end)
    return "ok"
