"""C14 -- RawCopy reports the exact bytes processed; checksums built always verify.

Programs: RawCopy over fixed / variable / nested inner constructs, at stream offsets 0..2 and inside
Prefixed / FixedSized substreams; Checksum layouts of the two docstring examples (digest after the
region; digest before it through Pointer) with Bytes(k) and Int32ub digest fields (enumerated).
Symbolic: all payload bytes / values, the corruption position and xor mask, and -- the hash function
is an UNINTERPRETED function, so every verdict holds for any hash function.
Obligations: RawCopy.data == stream[offset1:offset2], length == offset2-offset1, parse(data) == value,
build from value and from data emit the same bytes; parse(build(v)) never raises ChecksumError;
parse accepts only if the stored digest equals H(covered bytes); a corrupted digest byte, or a
corrupted covered byte with H(covered') != H(covered), raises ChecksumError.
"""
from symx import api
from symx.values import mkbytes, int_from_bytes
from .common import mk

PROPERTY = "C14"
LEVEL = "model_checking"
INSTANCE_BUDGET_S = {"quick": 90, "thorough": 600}
EXHAUSTIVE = {"quick": False, "thorough": False}
BOUNDS = {"quick": dict(rawcopy="6 inner kinds x offsets 0,1,2 x 6 symbolic bytes; 2 substream nestings", checksum="2 layouts x 2 digest field types x 2 payload kinds; "
                        "corruption: position symbolic over the whole encoding, xor mask symbolic 1..255 (every single- and multi-bit corruption of one byte)"),
          "thorough": dict(rawcopy="as quick with 9 bytes", checksum="as quick plus digest sizes 1, 8, 20")}
OUTSIDE = ["collision behaviour of real hash functions (C libraries): the hash is uninterpreted"]
ASSUMPTIONS = ["hash function = uninterpreted function of the covered bytes (congruence only)"]

INNER = {
    "u16": "Int16ub", "varint": "VarInt", "struct": "Struct('a'/Byte, 'b'/VarInt)", "prefixed": "Prefixed(Byte, GreedyBytes)",
    "array": "Array(2, Int16ul)", "bits": "BitStruct('a'/Nibble, 'b'/Nibble)",
    # regions longer than what the construct inside them needs (the rest of the region belongs to the RawCopy too)
    "prefix-wide": "Prefixed(Byte, Int16ub)", "fixed-wide": "FixedSized(4, Byte)",
    "bswap": "ByteSwapped(Bytes(3))", "xorfix": "FixedSized(2, ProcessXor(0x5a, GreedyBytes))", "rot": "FixedSized(2, ProcessRotateLeft(4, 1, GreedyBytes))",
}


# inner constructs that observe absolute positions while building: RawCopy builds them in place, at its own position
INNER_ABS = {
    "nested": "Struct('h'/Byte, 'r'/RawCopy(Int16ub), 'o'/Rebuild(Byte, this.r.offset1), 'e'/Rebuild(Byte, this.r.offset2))",
    "tellstamp": "Struct('h'/Byte, 't'/Tell, 'x'/Rebuild(Byte, this.t))",
    "pointer": "Struct('h'/Byte, 'p'/Pointer(0, Byte), 'x'/Byte)",
}
NONCANON = ("varint", "struct", "prefix-wide", "fixed-wide")


def instances(tier, seed):
    out = []
    n = 6 if tier == "quick" else 9
    for k in sorted(INNER_ABS):
        out.append(dict(name="rawcopy build, position-observing inner %s" % k, params=dict(kind="rc-build", inner=k, n=n)))
    for k in sorted(INNER):
        for s in (0, 1, 2):
            out.append(dict(name="rawcopy parse %s @%d" % (k, s), params=dict(kind="rc-parse", inner=k, s=s, n=n)))
        out.append(dict(name="rawcopy build %s" % k, params=dict(kind="rc-build", inner=k, n=n)))
    for w in ("Prefixed(Byte, Struct('h'/Byte, 'r'/RawCopy(Int16ub), 't'/GreedyBytes))", "FixedSized(5, Struct('h'/Byte, 'r'/RawCopy(VarInt), 't'/GreedyBytes))",
              "Struct('p'/Bytes(2), 'q'/Prefixed(Byte, Prefixed(Byte, Struct('r'/RawCopy(Byte), 'g'/GreedyBytes))))",
              "Struct('p'/Byte, 'q'/NullTerminated(Struct('r'/RawCopy(Byte), 'g'/GreedyBytes), consume=False), 't'/Byte)",
              "Struct('p'/Byte, 'q'/NullTerminated(Struct('r'/RawCopy(Int16ub), 'g'/GreedyBytes), term=b'\\xff\\xff', require=False))",
              "Struct('p'/Bytes(3), 'q'/NullTerminated(Struct('h'/Byte, 'r'/RawCopy(Byte), 'g'/GreedyBytes), include=True))"):
        out.append(dict(name="rawcopy in substream %s" % w, params=dict(kind="rc-sub", source=w, n=8)))
        if "NullTerminated" not in w:
            out.append(dict(name="rawcopy in substream, compiled %s" % w, params=dict(kind="rc-sub", source=w, n=8, compiled=True)))
    for field in ("PaddedString(4, 'ascii')", "CString('ascii')", "PascalString(Byte, 'utf8')"):
        out.append(dict(name="checksum kept as text in %s: corrupted digest" % field, params=dict(kind="ck-text", field=field)))
    for k in sorted(INNER):
        out.append(dict(name="rawcopy built twice from one Container %s" % k, params=dict(kind="rc-twice", inner=k, n=n)))
    for k in sorted(INNER):
        out.append(dict(name="rawcopy rebuild from an edited parse result %s" % k, params=dict(kind="rc-edit", inner=k, n=n)))
    sizes = [4] if tier == "quick" else [1, 4, 8, 20]
    for layout in ("after", "pointer"):
        for dig in ["bytes%d" % k for k in sizes] + ["int32", "int64", "int64l"]:
            for pay in ("fixed", "var"):
                base = dict(layout=layout, dig=dig, pay=pay)
                out.append(dict(name="checksum roundtrip %s %s %s" % (layout, dig, pay), params=dict(base, kind="ck-roundtrip")))
                out.append(dict(name="checksum accept-only-if-equal %s %s %s" % (layout, dig, pay), params=dict(base, kind="ck-arbitrary")))
                out.append(dict(name="checksum corrupt digest %s %s %s" % (layout, dig, pay), params=dict(base, kind="ck-corrupt-digest")))
                out.append(dict(name="checksum rebuilt after an edit %s %s %s" % (layout, dig, pay), params=dict(base, kind="ck-edit")))
                if pay == "fixed":
                    out.append(dict(name="checksum corrupt covered %s %s %s" % (layout, dig, pay), params=dict(base, kind="ck-corrupt-covered")))
    return out


def harness(ctx, C, p):
    k = p["kind"]
    if k == "rc-parse":
        return _rc_parse(ctx, C, p)
    if k == "rc-build":
        return _rc_build(ctx, C, p)
    if k == "rc-sub":
        return _rc_sub(ctx, C, p)
    if k == "rc-edit":
        return _rc_edit(ctx, C, p)
    if k == "rc-twice":
        return _rc_twice(ctx, C, p)
    if k == "ck-text":
        return _ck_text(ctx, C, p)
    return _ck(ctx, C, p)


def _rc_parse(ctx, C, p):
    inner = INNER[p["inner"]]
    d = mk(C, "RawCopy(%s)" % inner)
    data = ctx.bytes("data", p["n"])
    s = p["s"]
    st = ctx.stream(data)
    st.seek(s)
    r = api.outcome(d.parse_stream, st)
    st2 = ctx.stream(data)
    st2.seek(s)
    ri = api.outcome(mk(C, inner).parse_stream, st2)
    ctx.check("RawCopy succeeds exactly when the inner construct does", r.ok == ri.ok)
    if not r.ok:
        return "reject"
    v = r.value
    end = st2.tell()
    ctx.check("value is the inner construct's value", ctx.eq(v.value, ri.value))
    ctx.check("offsets are the absolute positions before and after", api.and_terms([ctx.eq(v.offset1, s), ctx.eq(v.offset2, end)]))
    ctx.check("data equals the stream slice between the offsets", ctx.eq(v.data, data[s:end]))
    ctx.check("length equals offset2 - offset1", ctx.eq(v.length, end - s))
    ctx.check("the stream is left after the inner construct", st.tell() == end)
    ctx.check("parsing data alone yields value", ctx.eq(mk(C, inner).parse(v.data), v.value))
    b1 = d.build(dict(value=v.value))
    b2 = d.build(dict(data=v.data))
    ctx.check("building from data emits data", ctx.eq(b2, v.data))
    if p["inner"] not in NONCANON:      # non-canonical VarInt encodings are normalised when built from value (C02)
        ctx.check("building from value and from data emit the same bytes", ctx.eq(b1, b2))
    return "accept"


def _rc_build(ctx, C, p):
    inner = INNER.get(p["inner"]) or INNER_ABS[p["inner"]]
    d = mk(C, "Struct('pre'/Byte, 'r'/RawCopy(%s), 'post'/Byte)" % inner)
    sample_bytes = ctx.bytes("sample", p["n"])
    ri = api.outcome(mk(C, inner).parse, sample_bytes)
    if not ri.ok:
        return "no-sample"
    val = ri.value
    a, b = ctx.int("a", 0, 255), ctx.int("b", 0, 255)
    if p["inner"] in INNER_ABS:
        # the reference: the inner construct built by itself at the same absolute position, after the same byte
        sref = ctx.stream(mkbytes([a]))
        sref.seek(1)
        mk(C, inner).build_stream(val, sref)
        full = sref.getvalue()
        if p["inner"] == "pointer":
            a = full[0]               # the Pointer member writes at absolute offset 0, i.e. over the byte before the region
        canon = full[1:]
    else:
        canon = mk(C, inner).build(val)
    st = ctx.stream()
    r = d.build_stream(dict(pre=a, r=dict(value=val), post=b), st)
    out = st.getvalue()
    ctx.check("build from value emits the inner encoding in place", ctx.eq(out, mkbytes([a]) + canon + mkbytes([b])))
    back = d.parse(out)
    ctx.check("reported data/offsets/length after a rebuild are exact",
              api.and_terms([ctx.eq(back.r.data, canon), ctx.eq(back.r.offset1, 1), ctx.eq(back.r.offset2, 1 + len(canon)), ctx.eq(back.r.length, len(canon))]))
    out2 = d.build(dict(pre=a, r=dict(data=canon), post=b))
    ctx.check("build from data emits the same bytes", ctx.eq(out2, out))
    return "ok"


def _rc_edit(ctx, C, p):
    """a parse result (which carries data, value, offsets and length) is edited and built again, at another
    position: what RawCopy reports to the fields after it is what it produced now, not what it parsed then"""
    inner = INNER[p["inner"]]
    d = mk(C, "Struct('pre'/Bytes(this._params.k), 'r'/RawCopy(%s), 'len'/Rebuild(Byte, this.r.length), 'o1'/Rebuild(Byte, this.r.offset1), 'o2'/Rebuild(Byte, this.r.offset2), "
              "'copy'/Rebuild(Bytes(this.len), this.r.data))" % inner)
    old_bytes, new_bytes = ctx.bytes("old", p["n"]), ctx.bytes("new", p["n"])
    ro, rn = api.outcome(mk(C, "RawCopy(%s)" % inner).parse, old_bytes), api.outcome(mk(C, inner).parse, new_bytes)
    if not (ro.ok and rn.ok):
        return "no-sample"
    canon = mk(C, inner).build(rn.value)
    how = ctx.choice("edit", ["value", "data"])
    rc = ro.value                      # Container(data, value, offset1, offset2, length) of the old parse at offset 0
    if how == "value":
        del rc["data"]
        rc["value"] = rn.value
    else:
        rc["data"] = canon
    k = ctx.choice("k", [0, 2])
    out = api.outcome(d.build, dict(pre=bytes(k), r=rc, len=0, o1=0, o2=0, copy=b""), k=k)
    ctx.check("rebuilding an edited parse result succeeds", out.ok)
    n = len(canon)
    ctx.check("fields after the RawCopy see the offsets, length and data of what was built now",
              ctx.eq(out.value, bytes(k) + canon + mkbytes([n, k, k + n]) + canon))
    return "ok"


def _ck_text(ctx, C, p):
    """digests stored as text (hex in a string field): a digest that differs is reported as ChecksumError, like bytes and integers are"""
    d = mk(C, "Struct('fields'/RawCopy(Struct('a'/Int16ub, 'b'/Byte)), 'checksum'/Checksum(%s, lambda data: '%%04x' %% (sum(data) & 0xffff), this.fields.data))" % p["field"])
    good = d.build(dict(fields=dict(value=dict(a=0x1234, b=0x56))))
    ctx.check("a built text checksum verifies", api.outcome(d.parse, good).ok)
    pos = ctx.choice("pos", [len(good) - 4 + i for i in range(4)] if "Padded" in p["field"] else [3 + i + (1 if "Pascal" in p["field"] else 0) for i in range(4)])
    c = ctx.int("char", 48, 102)
    ctx.assume(api.not_term(ctx.eq(c, good[pos])))
    bad = good[:pos] + mkbytes([c]) + good[pos + 1:]
    r = api.outcome(d.parse, bad)
    ctx.check("a text digest with one character altered is rejected", not r.ok)
    ctx.check("and reported as ChecksumError (got %s)" % type(r.exc).__name__, isinstance(r.exc, C.ChecksumError))
    return "ok"


def _rc_twice(ctx, C, p):
    """the caller's object is a template: building from it does not write into it, so editing it and building again emits the edit"""
    inner = INNER[p["inner"]]
    d = mk(C, "Struct('pre'/Byte, 'r'/RawCopy(%s), 'post'/Byte)" % inner)
    s1, s2 = ctx.bytes("first", p["n"]), ctx.bytes("second", p["n"])
    r1, r2 = api.outcome(mk(C, inner).parse, s1), api.outcome(mk(C, inner).parse, s2)
    if not (r1.ok and r2.ok):
        return "no-sample"
    c1, c2 = mk(C, inner).build(r1.value), mk(C, inner).build(r2.value)
    tmpl = C.Container(pre=1, r=C.Container(value=r1.value), post=2)
    keys_before = sorted(dict.keys(tmpl["r"]))
    b1 = api.outcome(d.build, tmpl)
    ctx.check("first build from the template", b1.ok and ctx.fork(ctx.eq(b1.value, mkbytes([1]) + c1 + mkbytes([2]))))
    ctx.check("building does not add entries to the caller's RawCopy container", sorted(dict.keys(tmpl["r"])) == keys_before)
    tmpl["r"]["value"] = r2.value
    b2 = api.outcome(d.build, tmpl)
    ctx.check("second build from the edited template emits the new value", b2.ok and ctx.fork(ctx.eq(b2.value, mkbytes([1]) + c2 + mkbytes([2]))))
    return "ok"


def _rc_sub(ctx, C, p):
    d = mk(C, p["source"])
    if p.get("compiled"):
        d = d.compile()
    data = ctx.bytes("data", p["n"])
    r = api.outcome(d.parse, data)
    if not r.ok:
        return "reject"
    v = r.value
    rc = v.q.r if "q" in v else v.r
    ctx.check("inside substreams offsets are absolute and data is the outermost stream's slice",
              ctx.eq(rc.data, _slice(ctx, data, rc.offset1, rc.offset2)))
    ctx.check("length", ctx.eq(rc.length, rc.offset2 - rc.offset1))
    return "accept"


def _slice(ctx, data, a, b):
    a, b = ctx.concretize(a), ctx.concretize(b)
    return data[a:b]


def _layout(ctx, C, p):
    dig = p["dig"]
    k = 4 if dig == "int32" else 8 if dig in ("int64", "int64l") else int(dig[5:])
    payload = "Struct('a'/Int16ub, 'b'/Byte)" if p["pay"] == "fixed" else "Struct('a'/VarInt, 'b'/Byte)"

    def H(data):
        out = ctx.uf("H", data, k)
        return int_from_bytes(out, "big") if dig.startswith("int") else out
    field = {"int32": "Int32ub", "int64": "Int64ub", "int64l": "Int64ul"}.get(dig) or "Bytes(%d)" % k
    if p["layout"] == "after":
        src_ = "Struct('fields'/RawCopy(%s), 'checksum'/Checksum(%s, HASH, this.fields.data))" % (payload, field)
    else:
        src_ = ("Struct('offset'/Tell, Padding(%d), 'fields'/RawCopy(%s), 'checksum'/Pointer(this.offset, Checksum(%s, HASH, this.fields.data)))"
                % (k, payload, field))
    d = mk(C, src_, {"HASH": H})
    return d, k, H


def _value(ctx, p):
    a = ctx.int("a", 0, 65535 if p["pay"] == "fixed" else 2 ** 21 - 1)
    b = ctx.int("b", 0, 255)
    return dict(fields=dict(value=dict(a=a, b=b)))


def _regions(p, total, k):
    """(covered slice, digest slice) of a built encoding"""
    if p["layout"] == "after":
        return (0, total - k), (total - k, total)
    return (k, total), (0, k)


def _ck(ctx, C, p):
    d, k, H = _layout(ctx, C, p)
    kind = p["kind"]
    if kind == "ck-arbitrary":
        n = k + (3 if p["pay"] == "fixed" else 4)
        data = ctx.bytes("data", n)
        r = api.outcome(d.parse, data)
        if not r.ok:
            ctx.check("rejection is a ConstructError", isinstance(r.exc, C.ConstructError))
            return "reject"
        v = r.value
        ctx.check("parse accepts only if the stored digest equals the hash of the covered bytes", ctx.eq(v.checksum, H(v.fields.data)))
        (c0, c1), (g0, g1) = _regions(p, len(data) if p["pay"] == "fixed" else ctx.concretize(v.fields.offset2) + (k if p["layout"] == "after" else 0), k)
        ctx.check("the covered bytes are the RawCopy region of the stream", ctx.eq(v.fields.data, data[ctx.concretize(v.fields.offset1):ctx.concretize(v.fields.offset2)]))
        return "accept"
    v = _value(ctx, p)
    x = d.build(v)
    total = len(x)
    (c0, c1), (g0, g1) = _regions(p, total, k)
    if kind == "ck-edit":
        # parse, change the covered value, build again from the parse result: the stale digest (and the stale
        # RawCopy data) in the container must not be what is written
        r0 = d.parse(x)
        a2 = ctx.int("a2", 0, 65535 if p["pay"] == "fixed" else 2 ** 21 - 1)
        b2 = ctx.int("b2", 0, 255)
        o = dict(dict.items(r0))
        f = dict(dict.items(r0.fields))
        del f["data"]
        f["value"] = dict(a=a2, b=b2)
        o["fields"] = f
        y = api.outcome(d.build, o)
        ctx.check("rebuilding an edited parse result succeeds", y.ok)
        y = y.value
        (c0, c1), (g0, g1) = _regions(p, len(y), k)
        dg = y[g0:g1] if not p["dig"].startswith("int") else int_from_bytes(y[g0:g1], "little" if p["dig"] == "int64l" else "big")
        ctx.check("the digest written is the hash of the bytes written now", ctx.eq(dg, H(y[c0:c1])))
        r = api.outcome(d.parse, y)
        ctx.check("a checksum that was rebuilt verifies when parsed back", r.ok)
        ctx.check("and carries the edited payload", api.and_terms([ctx.eq(r.value.fields.value.a, a2), ctx.eq(r.value.fields.value.b, b2)]))
        return "ok"
    if kind == "ck-roundtrip":
        from .c17 import fingerprint

        class _NoMods:
            modules = {}
        f0 = fingerprint(_NoMods, [d])
        api.outcome(d.parse, x)
        api.outcome(d.build, v)
        ctx.check("building and verifying leave no state behind in the Checksum construct (no digest memo)", f0 == fingerprint(_NoMods, [d]))
        want = H(x[c0:c1])
        dg = x[g0:g1] if not p["dig"].startswith("int") else int_from_bytes(x[g0:g1], "little" if p["dig"] == "int64l" else "big")
        ctx.check("build stores the hash of the covered bytes in the digest field", ctx.eq(dg, want))
        r = api.outcome(d.parse, x)
        ctx.check("a checksum that was built verifies when parsed back", r.ok)
        ctx.check("and the payload round-trips", api.and_terms([ctx.eq(r.value.fields.value.a, v["fields"]["value"]["a"]), ctx.eq(r.value.fields.value.b, v["fields"]["value"]["b"])]))
        return "ok"
    m = ctx.int("mask", 1, 255)
    if kind == "ck-corrupt-digest":
        pos = ctx.int("pos", g0, g1 - 1)
    else:
        pos = ctx.int("pos", c0, c1 - 1)
    items = list(x)
    y = mkbytes([_xor_at(ctx, b, i, pos, m) for i, b in enumerate(items)])
    if kind == "ck-corrupt-covered":
        ctx.assume(api.not_term(ctx.eq(H(y[c0:c1]), H(x[c0:c1]))))     # the hypothesis a real hash supplies
    r = api.outcome(d.parse, y)
    ctx.check("a corrupted %s is detected" % ("digest" if kind == "ck-corrupt-digest" else "covered byte"), not r.ok)
    if p["pay"] == "fixed":
        ctx.check("and reported as ChecksumError (got %s)" % type(r.exc).__name__, isinstance(r.exc, C.ChecksumError))
    else:
        ctx.check("and reported as a ConstructError", isinstance(r.exc, C.ConstructError))
    return "ok"


def _xor_at(ctx, b, i, pos, m):
    from .ref import bit_of
    if not ctx.symbolic:
        return b ^ m if pos == i else b
    from symx.values import SymInt
    hit = (pos == i)
    mm = m * hit if not isinstance(hit, bool) else (m if hit else 0)
    return SymInt.lift(b) ^ mm if not isinstance(mm, int) or mm else b
