"""C05 -- sizeof is exact when it answers and fails only with SizeofError.

Programs: generated composites (fixed, data-dependent and unsized) plus every class that takes a
context parameter, instantiated with `this.<key>` parameters.  Symbolic: the context values
passed as keyword arguments, all build values, trailing bytes after the encoding.
Obligations: sizeof(**ctx) returns an int >= 0 or raises SizeofError (a missing key included);
whenever it returns n, every successful build under that context writes exactly n bytes and
parsing those bytes followed by an arbitrary tail consumes exactly n.  Oracle: measured stream
positions.
"""
from symx import api
from . import common
from .common import src, mk, domain, T, J, generate, is_greedy

PROPERTY = "C05"
LEVEL = "model_checking"
INSTANCE_BUDGET_S = {"quick": 90, "thorough": 600}
EXHAUSTIVE = {"quick": False, "thorough": False}
BOUNDS = {
    "quick": dict(programs="generated composites (as C01) + 40 context-parameterised constructs", context_values="each key symbolic in 0..4 (modulus 2..5); "
                  "negative lengths and modulus < 2 are exempt by documentation", tail="0..2 arbitrary bytes"),
    "thorough": dict(programs="as quick with 1500 two-level composites", context_values="0..6", tail="0..3"),
}
OUTSIDE = ["transforms that read to the end of the stream regardless of their declared size, when not enclosed in a delimiter (documented exemption)",
           "string classes (stage 2)"]
ASSUMPTIONS = ["stream advance is measured on the stream model (symx.shims.ShBytesIO) / real io.BytesIO in replay"]

# (source, {key: (lo, hi)}, value builder name)
KW = [
    ("Bytes(this.n)", {"n": (0, 4)}, "bytes:n"),
    ("Array(this.n, Byte)", {"n": (0, 3)}, "list:n"),
    ("Array(this.n, Bytes(this.m))", {"n": (0, 2), "m": (0, 2)}, "listbytes:n:m"),
    ("Array(2, Bytes(this.n))", {"n": (0, 3)}, "listbytes:2:n"),
    ("LazyArray(this.n, Byte)", {"n": (0, 3)}, "list:n"),
    ("BytesInteger(this.n)", {"n": (1, 4)}, "uint:n"),
    ("BytesInteger(this.n, signed=True, swapped=True)", {"n": (1, 3)}, "sint:n"),
    ("Padded(this.n, Byte)", {"n": (1, 4)}, "byte"),
    ("Padded(this.n, Pass)", {"n": (0, 3)}, "none"),
    ("Padding(this.n)", {"n": (0, 3)}, "none"),
    ("Aligned(this.m, Byte)", {"m": (2, 5)}, "byte"),
    ("Aligned(this.m, Bytes(this.n))", {"m": (2, 4), "n": (0, 4)}, "bytes:n"),
    ("Aligned(this.m, Int32ub)", {"m": (2, 5)}, "u32"),
    ("FixedSized(this.n, GreedyBytes)", {"n": (0, 4)}, "bytesle:n"),
    ("FixedSized(this.n, Byte)", {"n": (1, 3)}, "byte"),
    ("If(this.c, Byte)", {"c": (0, 1)}, "ifbyte:c"),
    ("If(this.c, Int16ub)", {"c": (0, 2)}, "ifu16:c"),
    ("IfThenElse(this.c, Byte, Int16ub)", {"c": (0, 1)}, "byte"),
    ("IfThenElse(this.c, Bytes(this.n), Pass)", {"c": (0, 1), "n": (0, 2)}, "ifbytes:c:n"),
    ("Switch(this.k, {1: Byte, 2: Int16ub})", {"k": (0, 3)}, "switch12:k"),
    ("Switch(this.k, {1: Byte}, default=Int32ub)", {"k": (0, 2)}, "byte"),
    ("Struct('a'/Bytes(this.n), 'b'/Byte)", {"n": (0, 3)}, "struct_ab:n"),
    ("Struct('a'/Byte, 'b'/Struct('c'/Bytes(this._.n)))", {"n": (0, 2)}, "struct_nested:n"),
    ("Struct('a'/Byte, 'b'/Bytes(this._params.n))", {"n": (0, 2)}, "struct_ab2:n"),
    ("Sequence(Bytes(this.n), Int16ub)", {"n": (0, 3)}, "seq_bu:n"),
    ("FocusedSeq('b', 'a'/Const(b'x'), 'b'/Bytes(this.n))", {"n": (0, 3)}, "bytes:n"),
    ("Prefixed(Byte, Bytes(this.n))", {"n": (0, 3)}, "bytes:n"),
    ("Bitwise(BitsInteger(this.n))", {"n": (8, 8)}, "byte"),
    ("ByteSwapped(Bytes(3))", {}, "bytes3"),
    ("Pointer(this.off, Byte)", {"off": (0, 2)}, "byte"),
    ("Peek(Bytes(this.n))", {"n": (0, 2)}, "none"),
    ("RawCopy(Bytes(this.n))", {"n": (0, 3)}, "rawcopy:n"),
    ("ProcessXor(1, Bytes(this.n))", {"n": (0, 3)}, "bytes:n"),
    ("ProcessRotateLeft(1, 1, Bytes(this.n))", {"n": (0, 3)}, "bytes:n"),
    ("Checksum(Bytes(this.n), lambda d: d, lambda ctx: b'ab')", {"n": (2, 2)}, "none"),
    ("Const(b'ab')", {}, "none"),
    ("Computed(this.n)", {"n": (0, 3)}, "none"),
    ("Rebuild(Bytes(this.n), lambda ctx: b'zz'[:ctx.n])", {"n": (0, 2)}, "none"),
    ("Default(Bytes(this.n), b'')", {"n": (0, 2)}, "bytes:n"),
    ("Hex(Bytes(this.n))", {"n": (0, 2)}, "bytes:n"),
    ("Union(None, 'a'/Byte, 'b'/Int16ub)", {}, "union_a"),
    ("Select(Byte, Int16ub)", {}, "byte"),
    ("GreedyRange(Byte)", {}, "list2"),
    ("RepeatUntil(obj_ == 0, Byte)", {}, "until0"),
    ("StopIf(this.n)", {"n": (0, 1)}, "none"),
    ("Seek(this.n)", {"n": (0, 2)}, "none"),
    ("Tell", {}, "none"), ("Pass", {}, "none"), ("Terminated", {}, "none"), ("Error", {}, "none"),
    ("VarInt", {}, "byte"), ("GreedyBytes", {}, "bytes3"), ("NullTerminated(GreedyBytes)", {}, "bytes3nz"),
    ("NullStripped(GreedyBytes)", {}, "bytes3nz"), ("OffsettedEnd(-1, GreedyBytes)", {}, "bytes3"),
    ("Lazy(Bytes(this.n))", {"n": (0, 2)}, "bytes:n"),
    ("LazyStruct('a'/Bytes(this.n), 'b'/Byte)", {"n": (0, 2)}, "struct_ab:n"),
    ("Lazy(Prefixed(Byte, Int16ub))", {}, "u16"), ("Lazy(Prefixed(Int16ul, Bytes(this.n)))", {"n": (0, 2)}, "bytes:n"),
    ("Struct('a'/Lazy(Prefixed(Byte, Byte)), 'b'/Byte)", {}, "struct_bytebyte"), ("LazyStruct('a'/Prefixed(Byte, Byte), 'b'/Byte)", {}, "struct_bytebyte"),
    ("LazyArray(this.n, Prefixed(Byte, Byte))", {"n": (0, 2)}, "list:n"), ("Lazy(Padded(this.n, Byte))", {"n": (1, 3)}, "byte"), ("Lazy(Aligned(this.m, Byte))", {"m": (2, 4)}, "byte"),
    ("Prefixed(Byte, Int16ub)", {}, "u16"), ("Prefixed(Int16ub, Bytes(this.n), includelength=True)", {"n": (0, 2)}, "bytes:n"), ("PrefixedArray(Byte, Byte)", {}, "list2"),
    ("Peek(Int16ub)", {}, "none"), ("Struct('kind'/Byte, 'next'/Peek(Int16ub), 'flag'/Byte)", {}, "struct_kf"), ("Sequence(Byte, Peek(Bytes(this._params.n)), Byte)", {"n": (0, 3)}, "seq_peek"),
    ("Struct('a'/Byte, 'o'/Optional(Int16ub))", {}, "struct_a_only"), ("FocusedSeq('b', 'a'/Peek(Int32ub), 'b'/Byte)", {}, "byte"),
    ("Sequence('n'/Byte, 'd'/Bytes(this.n))", {"n": (0, 3)}, "seq_nd"), ("Struct('n'/Byte, 'd'/Bytes(this.n))", {"n": (0, 3)}, "struct_nd"), ("FocusedSeq('d', 'n'/Byte, 'd'/Bytes(this.n))", {"n": (0, 3)}, "seq_nd_focus"),
    ("ByteSwapped(Bytes(0))", {}, "bytes0"), ("BitsSwapped(Bytes(0))", {}, "bytes0"), ("Bitwise(Array(0, Bit))", {}, "list0"), ("BitStruct()", {}, "dict0"), ("Bytewise(Bytes(0))", {}, "bytes0"),
    ("Struct('a'/Byte, 'z'/ByteSwapped(Bytes(0)), 'e'/BitStruct(), 'b'/Byte)", {}, "struct_azeb"), ("Transformed(Bytes(0), lambda b: b, 0, lambda b: b, 0)", {}, "bytes0"),
    ("Restreamed(Bytes(this.n), lambda b: b, 1, lambda b: b, 1, lambda n: n)", {"n": (0, 2)}, "bytes:n"),
    ("Transformed(Bytes(2), lambda b: b, 2, lambda b: b, 2)", {}, "bytes2"),
]


# transforms and Pointers *enclosed in a delimiter*: the read-to-EOF / stream-moving exemption does not apply, both sides are measured
KW_ENCLOSED = [
    ("Prefixed(Byte, ProcessXor(b'\\x01\\x02\\x03', Bytes(this.n)))", {"n": (0, 5)}, "bytes:n"),
    ("FixedSized(this.n, ProcessXor(b'\\x01\\x02\\x03\\x04\\x05', Bytes(this.n)))", {"n": (0, 7)}, "bytes:n"),
    ("Prefixed(Byte, ProcessXor(b'ke', Struct('a'/Int16ub, 'b'/Bytes(this._params.n))))", {"n": (0, 3)}, "struct_ab2u16:n"),
    ("FixedSized(this.n, ProcessRotateLeft(3, 2, Bytes(this.n)))", {"n": (0, 4)}, "bytes2n:n"),
    ("Struct('h'/Byte, 'body'/FixedSized(3, Struct('f'/Pointer(0, Byte, stream=this._root._io), 'p'/Bytes(3))), 't'/Byte)", {}, "struct_hbt"),
    ("Struct('h'/Byte, 'body'/Prefixed(Byte, Struct('f'/Pointer(0, Byte, stream=this._root._io), 'p'/Bytes(this._root._params.n))), 't'/Byte)", {"n": (0, 2)}, "struct_hbt:n"),
    ("Struct('h'/Byte, 'body'/FixedSized(2, Struct('f'/Peek(Pointer(0, Byte, stream=this._root._io)), 'p'/Bytes(2))))", {}, "struct_hb2"),
]


def _value(ctx, how, kw):
    parts = how.split(":")
    k = parts[0]

    def key(i):
        x = parts[i]
        return int(x) if x.isdigit() else ctx.concretize(kw[x])
    if k == "none":
        return None
    if k == "byte":
        return ctx.int("v", 0, 255)
    if k == "u32":
        return ctx.int("v", 0, 2 ** 32 - 1)
    if k == "bytes":
        return ctx.bytes("v", max(0, key(1)))
    if k == "bytesle":
        return ctx.bytes("v", ctx.choice("v.len", range(0, max(0, key(1)) + 1)))
    if k == "bytes2":
        return ctx.bytes("v", 2)
    if k == "bytes3":
        return ctx.bytes("v", 3)
    if k == "bytes3nz":
        v = ctx.bytes("v", 3)
        for b in v:
            ctx.assume(b != 0)
        return v
    if k == "list":
        return [ctx.int("v[%d]" % i, 0, 255) for i in range(max(0, key(1)))]
    if k == "list2":
        return [ctx.int("v[%d]" % i, 0, 255) for i in range(2)]
    if k == "until0":
        a = ctx.int("v[0]", 1, 255)
        return [a, 0]
    if k == "listbytes":
        return [ctx.bytes("v[%d]" % i, max(0, key(2))) for i in range(max(0, key(1)))]
    if k == "uint":
        n = key(1)
        return ctx.int("v", 0, 256 ** n - 1)
    if k == "sint":
        n = key(1)
        return ctx.int("v", -(256 ** n) // 2, (256 ** n) // 2 - 1)
    if k == "ifbyte":
        return ctx.int("v", 0, 255) if key(1) else None
    if k == "ifu16":
        return ctx.int("v", 0, 65535) if key(1) else None
    if k == "ifbytes":
        return ctx.bytes("v", key(2)) if key(1) else None
    if k == "switch12":
        c = key(1)
        return ctx.int("v", 0, 255) if c == 1 else (ctx.int("v", 0, 65535) if c == 2 else None)
    if k == "struct_ab":
        return dict(a=ctx.bytes("v.a", key(1)), b=ctx.int("v.b", 0, 255))
    if k == "struct_ab2":
        return dict(a=ctx.int("v.a", 0, 255), b=ctx.bytes("v.b", key(1)))
    if k == "struct_nested":
        return dict(a=ctx.int("v.a", 0, 255), b=dict(c=ctx.bytes("v.b.c", key(1))))
    if k == "seq_bu":
        return [ctx.bytes("v[0]", key(1)), ctx.int("v[1]", 0, 65535)]
    if k == "rawcopy":
        return dict(value=ctx.bytes("v", key(1)))
    if k in ("seq_nd", "struct_nd", "seq_nd_focus"):
        # the member n is data: its value (not a keyword of the same name) decides the size of d
        m = ctx.choice("v.n", [0, 1, 3])
        d_ = ctx.bytes("v.d", m)
        return [m, d_] if k == "seq_nd" else (dict(n=m, d=d_) if k == "struct_nd" else d_)
    if k == "bytes0":
        return b""
    if k == "list0":
        return []
    if k == "dict0":
        return {}
    if k == "struct_azeb":
        return dict(a=ctx.int("v.a", 0, 255), z=b"", e={}, b=ctx.int("v.b", 0, 255))
    if k == "u16":
        return ctx.int("v", 0, 65535)
    if k == "struct_bytebyte":
        return dict(a=ctx.int("v.a", 0, 255), b=ctx.int("v.b", 0, 255))
    if k == "struct_kf":
        return dict(kind=ctx.int("v.kind", 0, 255), next=None, flag=ctx.int("v.flag", 0, 255))
    if k == "seq_peek":
        return [ctx.int("v[0]", 0, 255), None, ctx.int("v[2]", 0, 255)]
    if k == "struct_a_only":
        return dict(a=ctx.int("v.a", 0, 255), o=None)
    if k == "struct_ab2u16":
        return dict(a=ctx.int("v.a", 0, 65535), b=ctx.bytes("v.b", key(1)))
    if k == "bytes2n":
        return ctx.bytes("v", 2 * (key(1) // 2))
    if k == "struct_hbt":
        h = ctx.int("v.h", 0, 255)            # the Pointer member targets offset 0 of the outer stream, where h lives
        return dict(h=h, body=dict(f=h, p=ctx.bytes("v.p", key(1) if len(parts) > 1 else 3)), t=ctx.int("v.t", 0, 255))
    if k == "struct_hb2":
        return dict(h=ctx.int("v.h", 0, 255), body=dict(f=None, p=ctx.bytes("v.p", 2)))
    if k == "union_a":
        return dict(a=ctx.int("v.a", 0, 255))
    raise ValueError(how)


def instances(tier, seed):
    out, seen = [], set()
    specs = generate(tier, seed, depth2=100 if tier == "quick" else 1500)
    for s in specs:
        if src(s) in seen:
            continue
        seen.add(src(s))
        out.append(dict(name="gen  " + src(s), params=dict(kind="gen", spec=J(s), tier=tier)))
    for src_ in ("Pointer(this.off, Byte)", "Pointer(this.off, Int16ub)", "Struct('p'/Pointer(this._params.off, Byte), 'q'/Byte)", "Peek(Pointer(this.off, Byte))"):
        out.append(dict(name="pointer leaves the position: " + src_, params=dict(kind="pointerpos", source=src_)))
    for source, keys, how in KW_ENCLOSED:
        out.append(dict(name="ctx, enclosed  " + source, params=dict(kind="kw", source=source, keys={k: list(v) for k, v in keys.items()}, how=how, tier=tier, enclosed=True), expect=["sized"]))
    for source, keys, how in KW:
        out.append(dict(name="ctx  " + source, params=dict(kind="kw", source=source, keys={k: list(v) for k, v in keys.items()}, how=how, tier=tier)))
        for k in keys:
            out.append(dict(name="miss %s without %s" % (source, k), params=dict(kind="missing", source=source, keys={a: list(b) for a, b in keys.items()}, drop=k)))
            if "this.%s" % k in source and "lambda" not in source:
                # attribute-style access: a missing key surfaces as AttributeError inside the library
                s2 = source.replace("this.%s" % k, "(lambda ctx: ctx.%s)" % k)
                out.append(dict(name="miss %s without %s" % (s2, k), params=dict(kind="missing", source=s2, keys={a: list(b) for a, b in keys.items()}, drop=k)))
    return out


def _check_sizeof_outcome(ctx, C, r, what):
    if r.ok:
        n = r.value
        ok = isinstance(n, int) and not isinstance(n, bool) if not ctx.symbolic else type(n).__name__ in ("int", "SymInt")
        ctx.check("%s returns an integer" % what, ok)
        ctx.check("%s is non-negative" % what, n >= 0)
        return True
    ctx.check("%s fails only with SizeofError (got %s)" % (what, type(r.exc).__name__), isinstance(r.exc, C.SizeofError))
    return False


def _exact(ctx, C, d, n, v, kw, tier):
    st = ctx.stream()
    rb = api.outcome(d.build_stream, v, st, **kw)
    if not rb.ok:
        return "build-rejects"
    ctx.check("a successful build writes exactly sizeof bytes", st.tell() == n)
    data = st.getvalue()
    ctx.check("the built encoding has sizeof bytes", len(data) == n)
    tl = ctx.choice("tail.len", [0, 1, 2] if tier == "quick" else [0, 1, 2, 3])
    tail = ctx.bytes("tail", tl)
    st2 = ctx.stream(data + tail)
    rp = api.outcome(d.parse_stream, st2, **kw)
    ctx.check("parsing the encoding followed by arbitrary data succeeds", rp.ok)
    ctx.check("parse consumes exactly sizeof bytes", st2.tell() == n)
    return "sized"


def harness(ctx, C, p):
    kind = p["kind"]
    if kind == "gen":
        spec = T(p["spec"])
        d = mk(C, src(spec))
        r = api.outcome(d.sizeof)
        if not _check_sizeof_outcome(ctx, C, r, "sizeof()"):
            return "unsized"
        common.STRICT[0] = True
        try:
            v = domain(ctx, spec, "v", p["tier"])
        finally:
            common.STRICT[0] = False
        if is_greedy(spec):
            return "sized-greedy"
        return _exact(ctx, C, d, r.value, v, {}, p["tier"])
    d = mk(C, p["source"])
    if kind == "pointerpos":
        # sizeof says 0 (or the size of the sequential members): parsing from any position with any offset, negative ones
        # (counted from the end) included, consumes exactly that
        n = api.outcome(d.sizeof, off=0)
        data = ctx.bytes("data", 5)
        off = ctx.int("off", -5, 4)
        start = ctx.choice("start", [0, 1, 3])
        st = ctx.stream(data)
        st.seek(start)
        r = api.outcome(d.parse_stream, st, off=off)
        if not r.ok:
            return "reject"
        ctx.check("sizeof answers for a Pointer", n.ok)
        ctx.check("parse with offset %s consumes exactly sizeof bytes" % ("< 0" if ctx.fork(off < 0) else ">= 0"), st.tell() == start + n.value)
        return "ok"
    if kind == "missing":
        kw = {k: ctx.int("kw." + k, lo, hi) for k, (lo, hi) in p["keys"].items() if k != p["drop"]}
        r = api.outcome(d.sizeof, **kw)
        _check_sizeof_outcome(ctx, C, r, "sizeof without %r" % p["drop"])
        return "missing-key"
    # an earlier call with an unrelated context must not influence the answer (no stale caches)
    kw0 = {k: ctx.int("kw0." + k, lo, hi) for k, (lo, hi) in p["keys"].items()}
    if kw0:
        api.outcome(d.sizeof, **kw0)
    kw = {k: ctx.int("kw." + k, lo, hi) for k, (lo, hi) in p["keys"].items()}
    r = api.outcome(d.sizeof, **kw)
    if not _check_sizeof_outcome(ctx, C, r, "sizeof(**ctx)"):
        return "unsized"
    n = r.value
    v = _value(ctx, p["how"], kw)
    if any(t in p["source"] for t in ("GreedyBytes", "GreedyRange", "ProcessXor", "ProcessRotateLeft", "Pointer", "Seek", "Select")) and "Peek" not in p["source"] and not p.get("enclosed"):
        # reads to end of stream / moves the stream by design: only the build side is measured
        st = ctx.stream()
        rb = api.outcome(d.build_stream, v, st, **kw)
        if rb.ok and "Pointer" not in p["source"] and "Seek" not in p["source"]:
            ctx.check("a successful build writes exactly sizeof bytes", st.tell() == n)
        return "sized-greedy"
    return _exact(ctx, C, d, n, v, kw, p["tier"])
