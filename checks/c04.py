"""C04 -- a compiled construct behaves exactly like the construct it was compiled from.

Translation validation by product execution: for each program the interpreter instance and the
instance returned by compile() are run on the SAME symbolic input inside one exploration (the
generated source goes through the engine's compile/exec shims, so it is executed symbolically too).
Programs: compilable constructs from the generator, context parameters given as expression objects
(operator trees from the C11 generator) used as Computed values, lengths, counts, conditions, switch
keys, rebuild/default values, with dependent probe members after them; curated feature list.
Symbolic: all input bytes; build values (parse results of symbolic bytes and generated domain values,
stale/extra keys included); keyword contexts.
Obligations: wherever the interpreter's parse returns a value the compiled parse returns an equal value
and stops at the same offset; wherever the interpreter's build returns bytes the compiled build returns
identical bytes; sizeof is equal (also on a second call with another context).  Nothing is claimed
where the interpreter rejects.
"""
import random
from symx import api
from . import common, c11
from .common import src, mk, domain, T, J, generate

PROPERTY = "C04"
LEVEL = "translation_validation"
INSTANCE_BUDGET_S = {"quick": 90, "thorough": 600}
EXHAUSTIVE = {"quick": False, "thorough": False}
BOUNDS = {"quick": dict(programs="generated leaves + 1-level wrappings (every 2nd) + 60 expression-parameterised structs x 8 uses + 60 curated", inputs="0..6 symbolic bytes (per program: lengths around its size)",
                        expressions="C11 trees of depth <= 2 over this.a, this.b, constants (incl. str/bytes constants and unary operators)"),
          "thorough": dict(programs="all generated 1-level + 400 2-level + 400 expression structs + curated", inputs="0..8 bytes", expressions="depth <= 3")}
OUTSIDE = ["documented exclusions (docs/compilation.rst): lambdas, _index/Index, _subcons/_stream, parsed hooks, discard, Debugger, enum34, error paths",
           "inputs the interpreter rejects (compiled code does not check short reads)", "repetitions of FlagsEnum elements (path count exceeds the per-instance bound; single FlagsEnum fields are covered)"]
ASSUMPTIONS = ["generated source is executed under the same engine shims as the package (symx.shims.sh_compile / sh_exec)"]

CURATED = [
    "Struct('hdr'/Struct('count'/Rebuild(Byte, len_(this._.items)), 'x'/Byte), 'items'/Array(this.hdr.count, Byte), 't'/Byte)",
    "Struct('n'/Rebuild(Byte, len_(this.d)), 'd'/Bytes(this.n), 't'/Byte)", "Sequence('n'/Rebuild(Byte, 2), 'd'/Bytes(this.n))",
    "Struct('d'/Default(Byte, 7), 'e'/Bytes(this.d & 1))", "Struct('c'/Const(b'ab'), 'v'/Const(513, Int16ul), 'z'/Byte)",
    # constants over framing sub-constructs, and constants supplied with another value (refused by both)
    "Struct('c'/Const(b'ab', Prefixed(Byte, GreedyBytes)), 'x'/Byte)", "Struct('c'/Const(b'ab', NullTerminated(GreedyBytes)), 'x'/Byte)", "Struct('c'/Const(b'ab', Padded(3, Bytes(2))), 'x'/Byte)",
    "Struct('magic'/Const(b'MZ'), 'ver'/Const(7, Byte), 'x'/Byte)", "Struct('ver'/Const(258, Int16ub), 'x'/Byte)", "Struct('magic'/Const(b'M'), 'x'/Byte)", "Sequence(Const(b'M'), Byte)",
    "FocusedSeq('b', 'a'/Const(b'!'), 'b'/Int16ub, 'c'/If(this._building, Byte))", "FocusedSeq('b', 'a'/Byte, 'b'/Bytes(this.a & 3), 'c'/If(this._parsing, Byte))",
    "Struct('f'/FocusedSeq('x', 'x'/Byte, 'y'/If(this._building, Const(b'B')), 'z'/If(this._parsing, Const(b'\\x00'))), 't'/Byte)",
    "Struct('a'/Byte, 'b'/If(this._parsing, Byte), 'c'/If(this._building, Const(b'!')), 'd'/Struct('e'/If(this._._parsing, Byte)))",
    "Sequence('a'/Byte, If(this._building, Const(b'x')), 'b'/Byte)",
    "Union(0, 'a'/Int16ub, 'b'/Byte)", "Union('b', 'a'/Int16ub, 'b'/Byte, 'c'/Int24ub)", "Union(None, 'a'/Int16ub, 'b'/Struct('x'/Byte, 'y'/Byte))", "Struct('u'/Union(1, 'a'/Byte, 'b'/Int16ub), 't'/Byte)",
    "Enum(Byte, one=1, two=2)", "Enum(Int16sb, neg=-1)", "FlagsEnum(Byte, a=1, b=2, ab=3, hi=128)", "Mapping(Byte, {'x': 0, 'y': 1})", "Struct('e'/Enum(Byte, a=1), 's'/Switch(this.e, {'a': Int16ub}, default=Byte))",
    "Struct('k'/Byte, 's'/Switch(this.k, {1: Int16ub, 2: Struct('q'/Byte)}, default=Pass), 't'/Byte)", "Struct('k'/Byte, 's'/Switch(this.k & 1, {0: Byte, 1: Int16ul}))",
    "Struct('k'/Byte, 'v'/IfThenElse(this.k > 5, Int16ub, Byte), 't'/Byte)", "Struct('k'/Byte, 'v'/If(this.k, Int16ub), 't'/Byte)", "Struct('k'/Byte, StopIf(this.k == 0), 'v'/Byte)",
    "Struct('k'/Byte, Check(this.k != 3), 'v'/Byte)", "Struct('a'/Byte, 'b'/Padded(this.a & 3, Pass) if False else Padded(3, Byte))", "Struct('a'/Padded(3, Byte), 'b'/Aligned(4, Int16ub), 'c'/Byte)",
    "AlignedStruct(4, 'a'/Byte, 'b'/Int16ub)", "Struct('p'/Pointer(2, Byte), 'q'/Byte)", "Struct('o'/Byte, 'p'/Pointer(this.o & 3, Byte), 'q'/Byte)", "Struct('a'/Peek(Int16ub), 'b'/Byte)",
    "Struct('t0'/Tell, 'a'/Byte, 't1'/Tell)", "Struct('a'/Byte, Seek(0), 'b'/Byte)", "Prefixed(Byte, GreedyBytes)", "Prefixed(Byte, Struct('a'/Byte, 'r'/GreedyBytes))", "Prefixed(Int16ub, GreedyBytes, includelength=True)",
    "PrefixedArray(Byte, Int16ub)", "FixedSized(3, GreedyBytes)", "Struct('n'/Byte, 'f'/FixedSized(this.n & 3, GreedyBytes), 't'/Byte)", "Array(3, Byte)", "Struct('n'/Byte, 'a'/Array(this.n & 3, Int16ub), 't'/Byte)",
    "RepeatUntil(obj_ == 0, Byte)", "RepeatUntil(obj_ > 200, Int16ub)", "RepeatUntil(len_(list_) == 2, Byte)", "GreedyRange(Byte)", "Struct('h'/Byte, 'r'/GreedyRange(Int16ub))",
    "Hex(Int32ul)", "HexDump(Bytes(2))", "Struct('r'/RawCopy(Int16ub), 't'/Byte)", "Struct('c'/Computed(7), 'd'/Computed(this.c + 1), 'e'/Bytes(this.d - 7))",
    "BytesInteger(3, signed=True, swapped=True)", "BitStruct('a'/Nibble, 'b'/BitsInteger(4, signed=True))", "Bitwise(Struct('a'/BitsInteger(3), 'b'/Flag, 'c'/BitsInteger(12, signed=True)))",
    "Struct('a'/Byte, 'b'/BitsSwapped(Byte), 'c'/ByteSwapped(Int16ub))", "VarInt", "ZigZag", "Flag", "Struct('v'/VarInt, 'd'/Bytes(this.v & 3))", "NullTerminated(GreedyBytes)", "NullStripped(GreedyBytes)",
    "Select(Int16ub, Byte)", "Optional(Int16ub)", "Struct('a'/Byte, 's'/Select(Const(b'\\x01'), Byte))", "NamedTuple('t', 'a b', Sequence(Byte, Byte))", "Struct('a'/Byte, 'b'/Struct('c'/Byte, 'd'/Bytes(this._.a & 1)))",
    "Struct('a'/Byte, 'b'/Struct('c'/Byte, 'd'/Computed(this._root.a + this.c)), 'e'/Bytes(this.b.d & 1))", "Struct('k'/Byte, 'v'/Bytes(this._params.n))",
    # text constants inside expressions that the compiler inlines (conditions, counts, lengths, offsets, predicates)
    "Struct('k'/Enum(Byte, a=1, b=2), 'v'/IfThenElse(this.k == 'a', Int16ub, Byte), 't'/Byte)", "Struct('k'/Enum(Byte, a=1), 'v'/If(this.k != 'a', Byte), 't'/Byte)",
    "RepeatUntil(obj_ == 'stop', Enum(Byte, stop=0))", "Struct('k'/Enum(Byte, a=1), 'v'/Bytes(this.k == 'a'), 't'/Byte)", "Struct('k'/Enum(Byte, a=1), 'v'/Array((this.k == 'a') + 1, Byte))",
    "Struct('k'/Mapping(Byte, {'x': 0, 'y': 1}), 'v'/Padded((this.k == 'x') + 1, Byte))", "Struct('k'/Enum(Byte, a=1), 'v'/FixedSized((this.k == 'a') + 1, GreedyBytes))",
    "Struct('k'/Enum(Byte, a=1), 'v'/Pointer(this.k == 'a', Byte))", "Struct('k'/Enum(Byte, a=1), 'c'/Computed(this.k == 'a'), StopIf(this.k == 'a'), 'v'/Byte)",
    "Struct('k'/Enum(Byte, a=1), 'v'/Rebuild(Byte, len_(this.k + 'x')), 'w'/Check(this.k != 'zz'))",
    # unions with anonymous members before/after the selected one
    "Struct('u'/Union('b', Padding(1), 'a'/Int16ub, 'b'/Byte), 't'/Byte)", "Union('b', Const(b'\\x01'), 'a'/Int16ub, 'b'/Byte, 'c'/Int24ub)", "Struct('u'/Union('b', 'a'/Int16ub, Padding(1), 'b'/Byte), 't'/Byte)",
    "Struct('u'/Union(1, Padding(2), 'a'/Int16ub), 't'/Byte)",
    # _root seen from an outermost nested context
    "Sequence('n'/Byte, 'd'/Bytes(this._root.n & 3), 't'/Byte)", "Array(2, Sequence('n'/Byte, 'd'/Bytes(this._root.n & 1)))", "Struct('n'/Byte, 'd'/Bytes(this._root.n & 3))",
    "IfThenElse(this._params.n == 1, Sequence('n'/Byte, 'd'/Bytes(this._root.n & 1)), Byte)", "Struct('k'/Byte, 'v'/Bytes(this._params.n), 's'/Sequence('n'/Byte, 'd'/Bytes(this._root.k & 1)))",
    # adapters and validators (linked or inlined by the compiler)
    "Struct('a'/ExprAdapter(Byte, decoder=obj_ + 1, encoder=obj_ - 1), 'd'/Bytes(this.a & 3))", "ExprSymmetricAdapter(Int16ub, obj_ ^ 0x55)", "Struct('v'/ExprValidator(Byte, obj_ < 200), 't'/Byte)",
    "Slicing(Array(4, Byte), 4, 1, 3, empty=0)", "Indexing(Array(3, Byte), 3, 1, empty=0)", "Struct('f'/Filter(obj_ != 0, Byte[3]), 't'/Byte)", "Struct('o'/OneOf(Byte, [1, 2, 3]), 'n'/NoneOf(Byte, [0]), 'd'/Bytes(this.o))",
    "Struct('t'/Timestamp(Int32ub, 1, 1970) if False else Computed(1), 'x'/Byte)", "Struct('a'/Byte, 'b'/Rebuild(Byte, this.a ^ 0xFF), Check(this.a + this.b == 255), 'c'/Byte)",
    "Struct('n'/NamedTuple('pt', 'x y', Byte[2]), 'd'/Bytes(this.n.x & 1))", "FocusedSeq('v', 'len'/Rebuild(Byte, len_(this.v)), 'v'/Bytes(this.len & 3), Terminated) if False else FocusedSeq('v', 'len'/Rebuild(Byte, len_(this.v)), 'v'/Bytes(this.len & 3))",
    "Sequence('a'/Byte, StopIf(this.a == 0), 'b'/Byte)", "Struct('s'/Sequence('a'/Byte, StopIf(this.a & 1), 'b'/Int16ub), 't'/Byte)",
    "Struct('p'/Peek(Const(b'MZ')), 'a'/Int16ub)", "Struct('p'/Peek(Struct('k'/Byte, Check(this.k == 1))), 'head'/Byte, 'x'/Byte)", "Struct('p'/Peek(OneOf(Byte, [1, 2])), 'q'/Int16ub)",
    # offsets observed inside delimited regions (absolute in the interpreter)
    "Struct('h'/Byte, 'p'/Prefixed(Byte, Struct('a'/Byte, 't'/Tell, 'g'/GreedyBytes)), 'z'/Tell)", "Struct('h'/Byte, 'f'/FixedSized(3, Struct('t'/Tell, 'r'/RawCopy(Byte), 'g'/GreedyBytes)), 'z'/Byte)",
    "Struct('h'/Byte, 'p'/Prefixed(Byte, Prefixed(Byte, Struct('t'/Tell, 'g'/GreedyBytes))))", "Struct('h'/Int16ub, 'p'/Prefixed(Byte, Struct('q'/Pointer(1, Byte), 'g'/GreedyBytes), includelength=True))",
    "Struct('h'/Byte, 'n'/NullTerminated(Struct('t'/Tell, 'g'/GreedyBytes)), 's'/NullStripped(Struct('t'/Tell, 'g'/GreedyBytes)))",
    # bit-level integers outside Bitwise (the stream then holds one bit per byte)
    ("BitsInteger(8, swapped=True)", 8), ("BitsInteger(16, signed=True, swapped=True)", 16), ("Struct('le'/Byte, 'v'/BitsInteger(16, swapped=this.le & 1))", 17), ("BitsInteger(12)", 12),
]
EXPR_USES = [
    "Struct('a'/Byte, 'b'/Byte, 'c'/Computed({E}), 'p'/Byte)",
    "Struct('a'/Byte, 'b'/Byte, 'd'/Bytes(({E}) & 3), 'p'/Byte)",
    "Struct('a'/Byte, 'b'/Byte, 'd'/Array(({E}) & 3, Byte), 'p'/Byte)",
    "Struct('a'/Byte, 'b'/Byte, 'd'/If({E}, Byte), 'p'/Byte)",
    "Struct('a'/Byte, 'b'/Byte, 'd'/IfThenElse({E}, Int16ub, Byte), 'p'/Byte)",
    "Struct('a'/Byte, 'b'/Byte, 'd'/Switch({E}, {{0: Byte, 1: Int16ub, True: Int24ub, 2: Pass}}, default=Int16ul), 'p'/Byte)",
    "Struct('a'/Byte, 'b'/Byte, 'd'/Rebuild(Byte, ({E}) & 255), 'p'/Bytes(this.d & 1))",
    "Struct('a'/Byte, 'b'/Byte, StopIf({E}), 'p'/Byte)",
]


def expr_trees(tier, seed):
    rnd = random.Random(seed * 131 + 17)
    ts = [t for t in c11.trees("quick", seed) if c11.spell(t).count("this") >= 1 and "obj_" not in c11.spell(t) and "lst" not in c11.spell(t)
          and "_." not in c11.spell(t) and "this.s" not in c11.spell(t) and "this.d" not in c11.spell(t) and "/" not in c11.spell(t).replace("//", "")
          and "**" not in c11.spell(t) and "<<" not in c11.spell(t)]
    rnd.shuffle(ts)
    extra = ["(this.a == 1) & (this.b > 2)", "this.a * this.b + 3", "-(this.a - this.b)", "(~this.a) | (this.b == 0)", "(-this.a) ** 2", "(this.a % 3) == (this.b % 3)", "+this.a - -this.b",
             "(this.a >> 2) ^ (this.b << 1)", "~(this.a & this.b)", "(this.a < this.b) == (this.b >= this.a)", "100 - this.a", "3 * this.b // 2", "7 % (this.a + 1)", "(this.a | 0x80) & ~1 if False else (this.a | 0x80)",
             "1 << (this.a & 7)", "2 ** (this.b & 3)"]
    n = 60 if tier == "quick" else 400
    return extra + [c11.spell(t).replace("this['b']", "this.b") for t in ts[:n - len(extra)]]


def instances(tier, seed):
    out, seen = [], set()
    gen = generate(tier, seed, depth2=0 if tier == "quick" else 400)
    for s in (gen[::2] if tier == "quick" else gen):
        t = src(s)
        if t in seen:
            continue
        if tier == "quick" and any(x in t for x in ("GreedyRange(VarInt", "GreedyRange(ZigZag", "GreedyRange(Enum", "GreedyRange(FlagsEnum", "PrefixedArray(VarInt", "Array(2, ZigZag", "'b' / ZigZag",
                                                    "GreedyRange(CString", "GreedyRange(Pascal", "PrefixedArray(Int8ub, CString", "PrefixedArray(Int8ub, Pascal", "Array(this.cnt, Pascal", "Array(this.cnt, CString", "PrefixedArray(Int8ub, FlagsEnum", "Array(this.cnt, FlagsEnum")):
            continue
        if any(x in t for x in ("GreedyRange(FlagsEnum", "PrefixedArray(Int8ub, FlagsEnum", "PrefixedArray(VarInt, FlagsEnum", "Array(this.cnt, FlagsEnum")):
            continue          # every flag of every element forks parse and build twice: > 20000 paths (stated in OUTSIDE)
        seen.add(t)
        out.append(dict(name="gen  " + t, params=dict(kind="gen", spec=J(s), tier=tier, part="parse")))
        out.append(dict(name="genb " + t, params=dict(kind="gen", spec=J(s), tier=tier, part="build")))
    for i, e in enumerate(expr_trees(tier, seed)):
        for j, u in enumerate(EXPR_USES):
            if tier == "quick" and (i + j) % 2 and i >= 16:
                continue
            t = u.format(E=e)
            out.append(dict(name="expr " + t, params=dict(kind="src", source=t, n=6)))
    for t in CURATED:
        t, n = t if isinstance(t, tuple) else (t, 6)
        out.append(dict(name="feat " + t, params=dict(kind="src", source=t, n=n)))
    out.append(dict(name="sizeof twice", params=dict(kind="sizeof2")))
    return out


def _lens(n):
    return [1, 3, n]


def _both(ctx, C, d, dc, data, kw, what):
    s1, s2 = ctx.stream(data), ctx.stream(data)
    r1 = api.outcome(d.parse_stream, s1, **kw)
    if not r1.ok:
        return None
    r2 = api.outcome(dc.parse_stream, s2, **kw)
    ctx.check("%s: compiled parse accepts what the interpreter accepts (got %s)" % (what, "ok" if r2.ok else type(r2.exc).__name__ + ": " + str(r2.exc)[:60]), r2.ok)
    ctx.observe("value", r1.value)
    ctx.check("%s: compiled parse returns an equal value" % what, ctx.eq(_norm(r2.value), _norm(r1.value)))
    ctx.check("%s: compiled parse stops at the same offset" % what, s1.tell() == s2.tell())
    return r1.value


def _norm(v):
    if type(v).__name__ in ("LazyContainer",):
        return {k: _norm(v[k]) for k in v.keys()}
    if isinstance(v, dict):
        return {k: _norm(x) for k, x in dict.items(v) if not (isinstance(k, str) and k.startswith("_"))}
    if isinstance(v, tuple) and hasattr(v, "_fields"):
        return list(v)
    if isinstance(v, (list, tuple)):
        return [_norm(x) for x in v]
    if callable(v) and type(v).__name__ == "function":
        return _norm(v())
    return v


def _build_both(ctx, C, d, dc, v, kw, what):
    b1 = api.outcome(d.build, v, **kw)
    if not b1.ok:
        return
    b2 = api.outcome(dc.build, v, **kw)
    ctx.check("%s: compiled build accepts what the interpreter accepts (got %s)" % (what, "ok" if b2.ok else type(b2.exc).__name__ + ": " + str(b2.exc)[:60]), b2.ok)
    ctx.check("%s: compiled build emits identical bytes" % what, ctx.eq(b2.value, b1.value))


def harness(ctx, C, p):
    kind = p["kind"]
    if kind == "sizeof2":
        d = mk(C, "Struct('a'/Bytes(this._params.n), 'b'/Array(this._params.m, Int16ub))")
        dc = d.compile()
        n1, m1, n2, m2 = ctx.int("n1", 0, 9), ctx.int("m1", 0, 9), ctx.int("n2", 0, 9), ctx.int("m2", 0, 9)
        ctx.check("first sizeof", ctx.eq(dc.sizeof(n=n1, m=m1), d.sizeof(n=n1, m=m1)))
        ctx.check("second sizeof with another context", ctx.eq(dc.sizeof(n=n2, m=m2), d.sizeof(n=n2, m=m2)))
        return "ok"
    if kind == "gen":
        spec = T(p["spec"])
        source = src(spec)
    else:
        source = p["source"]
    d = mk(C, source)
    rc = api.outcome(d.compile)
    if not rc.ok:
        # the property speaks about constructs that compile() accepts; a refusal must still be a ConstructError
        ctx.check("compile() refuses only with a ConstructError (got %s)" % type(rc.exc).__name__, isinstance(rc.exc, C.ConstructError))
        return "not-compilable"
    dc = rc.value
    s1, s2 = api.outcome(d.sizeof), api.outcome(dc.sizeof)
    ctx.check("sizeof agrees", s1.ok == s2.ok and (not s1.ok or s1.value == s2.value))
    kw = {}
    if "_params.n" in source:
        kw["n"] = ctx.int("kw.n", 0, 3)
    if kind == "gen" and p.get("part") == "build":
        common.STRICT[0] = True
        try:
            val = domain(ctx, spec, "v", p["tier"])
        finally:
            common.STRICT[0] = False
        _build_both(ctx, C, d, dc, val, kw, "build(domain value)")
        return "built"
    lens = _lens(p.get("n", 6)) if kind != "gen" else _gen_lens(spec)
    if "Peek" in source:
        lens = [3, 6]          # look-ahead over truncated data is excluded by the property (compiled fields do not raise ConstructError on short reads)
    n = ctx.choice("len", lens)
    data = ctx.bytes("data", n)
    v = _both(ctx, C, d, dc, data, kw, "parse")
    if v is None:
        tag = "reject"
    else:
        tag = "accept"
        vv = _norm(v) if ("Lazy" in source or "NamedTuple" in source) else v
        _build_both(ctx, C, d, dc, vv, kw, "build(parsed value)")
        if isinstance(v, dict):
            stale = dict((k, x) for k, x in dict.items(v) if not (isinstance(k, str) and k.startswith("_")))
            stale["extra_key"] = 1
            for k in list(stale):
                if k in ("n", "count", "d", "c") and type(stale[k]).__name__ in ("int", "SymInt"):
                    stale[k] = stale[k] + 1          # stale derived value: Rebuild/Computed members must override it in both
            for k in ("magic", "ver"):
                if k in stale:
                    stale[k] = b"AB" if type(stale[k]).__name__ in ("bytes", "SymBytes", "CBytes") else stale[k] + 1      # a constant supplied with another value
            if isinstance(stale.get("hdr"), dict):
                h = dict(stale["hdr"])
                h["count"] = 200
                stale["hdr"] = h
            _build_both(ctx, C, d, dc, stale, kw, "build(stale/extra keys)")
    return tag


def _gen_lens(spec):
    from .ref import static_size
    z = static_size(spec)
    if z is not None and z <= 8:
        return [z]
    return [2, 4, 6]
