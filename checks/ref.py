"""checks.ref -- independent reference semantics of the core fragment (DESIGN 4.3).

Written from the documentation (docstrings, docs/*.rst), not from the implementation, in
ordinary arithmetic (//, %, *, +) over values that may be proxies: no streams, no bit tricks
shared with construct.  Part of the trusted base; validated against the literal samples of
the repository's unit tests (checks/selftest_ref.py).

enc(s, v, env)            -> list of byte items, raises Reject(kind)
dec(s, buf, pos, env)     -> (value, newpos), raises Reject(kind);  buf is a list of byte items,
                             a construct that reads "to the end of the stream" reads to len(buf)
"""
import sys
from .common import T, name_info, FLOATS


class Reject(Exception):
    def __init__(self, kind, msg=""):
        super().__init__("%s %s" % (kind, msg))
        self.kind = kind


# expected ConstructError subclasses per rejection kind (names resolved on the copy under test)
UNIT = {"ascii": 1, "utf8": 1, "utf_8": 1, "utf_16_le": 2, "utf_16_be": 2, "utf_32_le": 4, "utf_32_be": 4}


def text_encode(v, enc):
    from symx import strings
    if type(v).__name__ not in ("str", "SymStr"):
        raise Reject("string", "not text")
    if len(v) == 0:
        return []
    try:
        b = strings.encode(v, enc) if type(v).__name__ == "SymStr" else v.encode(enc)
    except UnicodeError:
        raise Reject("string", "cannot encode")
    return list(b)


def text_decode(items, enc):
    from symx import strings
    from symx.values import mkbytes
    b = mkbytes(items)
    try:
        return strings.decode(b, enc) if type(b).__name__ == "SymBytes" else bytes(b).decode(enc)
    except UnicodeError:
        raise Reject("string", "cannot decode")


def strip_units(data, unit):
    """documented NullStripped rule for a pad of `unit` zero bytes"""
    data = list(data)
    if unit == 1:
        while data and data[-1] == 0:
            data.pop()
        return data
    tail = len(data) % unit
    end = len(data)
    if tail and same(data[end - tail:end], [0] * tail):
        end -= tail
    while end - unit >= 0 and same(data[end - unit:end], [0] * unit):
        end -= unit
    return data[:end]


KIND_CLASSES = {
    "string": ("StringError",),
    "range": ("IntegerError", "FormatFieldError"),
    "short": ("StreamError",),
    "const": ("ConstError",),
    "mapping": ("MappingError",),
    "padding": ("PaddingError", "StreamError"),
    "validation": ("ValidationError",),
    "select": ("SelectError",),
    "count": ("RangeError",),
    "type": ("IntegerError", "FormatFieldError", "StringError", "StreamError", "MappingError"),
    "repeat": ("RepeatError", "StreamError"),
    "explicit": ("ExplicitError",),
    "terminated": ("TerminatedError",),
    "switch": ("SwitchError",),
}


def _reject(kind):
    raise Reject(kind)


def _isint(v):
    return type(v).__name__ in ("int", "SymInt", "bool", "SymBool", "EnumInteger", "HexDisplayedInteger")


# ---- integers ------------------------------------------------------------------------------
def enc_uint_be(u, n):
    """n big-endian bytes of a non-negative integer below 256**n"""
    return [(u // (256 ** (n - 1 - i))) % 256 for i in range(n)]


def enc_int(v, n, signed, order):
    if not _isint(v):
        raise Reject("type")
    lo, hi = (-(256 ** n) // 2, (256 ** n) // 2 - 1) if signed else (0, 256 ** n - 1)
    if v < lo:
        raise Reject("range")
    if v > hi:
        raise Reject("range")
    u = v
    if signed:
        if v < 0:
            u = v + 256 ** n
    out = enc_uint_be(u, n)
    if order == "little":
        out.reverse()
    return out


def dec_int(items, signed, order):
    items = list(items)
    if order == "little":
        items.reverse()
    n = len(items)
    u = 0
    for b in items:
        u = u * 256 + b
    if signed:
        if u >= (256 ** n) // 2:
            u = u - 256 ** n
    return u


def take(buf, pos, n):
    if n < 0:
        raise Reject("short", "negative length")
    if n > len(buf) - pos:
        raise Reject("short")
    n = int(n)                # symbolic lengths: forks over the (buffer-bounded) feasible values
    return list(buf[pos:pos + n]), pos + n


def enc_varint(v):
    if not _isint(v):
        raise Reject("type")
    if v < 0:
        raise Reject("range")
    out = []
    while True:
        low = v % 128
        v = v // 128
        if v == 0:
            out.append(low)
            return out
        out.append(low + 128)


def dec_varint(buf, pos):
    n = 0
    mult = 1
    while True:
        (b,), pos = take(buf, pos, 1)
        if b >= 128:
            n = n + (b - 128) * mult
            mult = mult * 128
        else:
            return n + b * mult, pos


def bit_of(v, i):
    """bit i of a non-negative integer, arithmetically"""
    return (v // (2 ** i)) % 2


# ---- static size (in bytes, or bits in bit mode); None when it depends on data ---------------
def static_size(s, bitmode=False):
    s = T(s)
    k = s[0]
    if k == "fmt":
        return name_info(s[1])[0] * (8 if bitmode else 1)
    if k == "float":
        return FLOATS[s[1]][0]
    if k == "bytesint":
        return s[1] * (8 if bitmode else 1)
    if k == "bitsint":
        return s[1]
    if k == "flag":
        return 1
    if k in ("pass", "tell", "computed"):
        return 0
    if k == "bytes":
        return s[1]
    if k == "pstring":
        return s[1]
    if k == "const":
        return len(s[1]) // 2
    if k in ("constv",):
        return static_size(s[2], bitmode)
    if k in ("enum", "flagsenum", "mapping", "hex", "oneof", "noneof", "rebuildlen", "default", "byteswapped", "bitsswapped", "adapt"):
        return static_size(s[1], bitmode)
    if k == "xor":
        return static_size(s[2], bitmode)
    if k == "struct" or k == "focusedseq":
        tot = 0
        for n, x in (s[1] if k == "struct" else s[2]):
            z = static_size(x, bitmode)
            if z is None:
                return None
            tot += z
        return tot
    if k == "seq":
        tot = 0
        for x in s[1]:
            z = static_size(x, bitmode)
            if z is None:
                return None
            tot += z
        return tot
    if k == "array":
        z = static_size(s[2], bitmode)
        return None if z is None else z * s[1]
    if k in ("fixedsized", "padded"):
        return s[1]
    if k == "aligned":
        z = static_size(s[2], bitmode)
        return None if z is None else z + (-z % s[1])
    if k == "prefixed":
        a, b = static_size(s[1], bitmode), static_size(s[2], bitmode)
        return None if a is None or b is None else a + b
    if k == "bitwise":
        z = static_size(s[1], True)
        return None if z is None or z % 8 else z // 8
    if k == "bytewise":
        z = static_size(s[1], False)
        return None if z is None else z * 8
    return None


# ---- encode ----------------------------------------------------------------------------------
def truth(v):
    return bool(v)


def enc(s, v, env=None, bitmode=False):
    s = T(s)
    k = s[0]
    env = {} if env is None else env
    if k == "fmt":
        size, signed, order = name_info(s[1])
        if bitmode:
            raise Reject("type", "byte field in bit region")
        return enc_int(v, size, signed, order)
    if k == "bytesint":
        return enc_int(v, s[1], s[2], "little" if s[3] else "big")
    if k == "bytesintctx":
        w = env[s[1]]
        return enc_int(v, int(w % 4) + 1, s[2], "little" if (w // 4) % 2 == 1 else "big")
    if k == "bitsintctx":
        w = env[s[1]]
        return enc(("bitsint", (int(w % 2) + 1) * 8, s[2], (w // 2) % 2 == 1), v, env, bitmode)
    if k == "bitsint":
        w, signed, swapped = s[1], s[2], s[3]
        if not _isint(v):
            raise Reject("type")
        lo, hi = (-(2 ** w) // 2, (2 ** w) // 2 - 1) if signed else (0, 2 ** w - 1)
        if v < lo:
            raise Reject("range")
        if v > hi:
            raise Reject("range")
        u = v
        if signed:
            if v < 0:
                u = v + 2 ** w
        bits = [bit_of(u, w - 1 - i) for i in range(w)]
        if swapped:
            if w % 8:
                raise Reject("range", "swapped needs multiple of 8")
            groups = [bits[i:i + 8] for i in range(0, w, 8)]
            bits = [b for g in reversed(groups) for b in g]
        return bits
    if k == "varint":
        return enc_varint(v)
    if k == "zigzag":
        if not _isint(v):
            raise Reject("type")
        if v >= 0:
            return enc_varint(v * 2)
        return enc_varint(-v * 2 - 1)
    if k == "flag":
        return [1 if truth(v) else 0]
    if k in ("pass", "tell", "computed", "terminated"):
        return []
    if k == "error":
        raise Reject("explicit")
    if k == "bytes":
        if _isint(v):
            return enc_int(v, s[1], False, "big")
        if len(v) != s[1]:
            raise Reject("short", "wrong length")
        return list(v)
    if k == "bytesctx":
        n = env[s[1]] if s[2] is None else env[s[1]] % (s[2] + 1)
        if n < 0:
            raise Reject("short", "negative length")
        if len(v) != n:
            raise Reject("short", "wrong length")
        return list(v)
    if k == "greedybytes":
        return list(v)
    if k == "pstring":
        body = text_encode(v, s[2])
        if len(body) > s[1]:
            raise Reject("padding")
        return body + [0] * (s[1] - len(body))
    if k == "cstring":
        return text_encode(v, s[1]) + [0] * UNIT[s[1]]
    if k == "pascal":
        body = text_encode(v, s[2])
        return enc(s[1], len(body), env, bitmode) + body
    if k == "greedystring":
        return text_encode(v, s[1])
    if k == "const":
        c = bytes.fromhex(s[1])
        if v is not None:
            if not same(v, c):
                raise Reject("const")
        return list(c)
    if k == "constv":
        if v is not None:
            if not same(v, s[1]):
                raise Reject("const")
        return enc(s[2], s[1], env, bitmode)
    if k == "enum":
        if isinstance(v, str):
            for l, x in s[2]:
                if l == v:
                    return enc(s[1], x, env, bitmode)
            raise Reject("mapping")
        return enc(s[1], v, env, bitmode)
    if k == "flagsenum":
        if _isint(v):
            return enc(s[1], v, env, bitmode)
        table = dict((l, x) for l, x in s[2])
        total_bits = {}
        if isinstance(v, str):
            names = [n.strip() for n in v.split("|") if n.strip()]
            for n in names:
                if n not in table:
                    raise Reject("mapping")
            on = {n: True for n in names}
        elif isinstance(v, dict):
            on = {}
            for n, val in dict.items(v):
                if isinstance(n, str) and n.startswith("_"):
                    continue
                if truth(val):
                    if n not in table:
                        raise Reject("mapping")
                    on[n] = True
        else:
            raise Reject("mapping")
        # union of the selected flags, bit by bit
        maxbit = max([x.bit_length() for x in table.values()] + [1])
        total = 0
        for i in range(maxbit):
            if any(bit_of(table[n], i) for n in on):
                total += 2 ** i
        return enc(s[1], total, env, bitmode)
    if k == "mapping":
        for o, x in s[2]:
            if same(o, v):
                return enc(s[1], x, env, bitmode)
        raise Reject("mapping")
    if k in ("hex", "rebuildlen", "default"):
        if k == "default" and v is None:
            v = s[2]
        return enc(s[1], v, env, bitmode)
    if k == "adapt":
        if not _isint(v):
            raise Reject("type")
        from .common import _xor55
        return enc(s[1], {"inc": lambda: v - 1, "xor": lambda: _xor55(v) if v >= 0 else _reject("range"), "cls": lambda: -v}[s[2]](), env, bitmode)
    if k == "oneof":
        if not any(same(v, x) for x in s[2]):
            raise Reject("validation")
        return enc(s[1], v, env, bitmode)
    if k == "noneof":
        if any(same(v, x) for x in s[2]):
            raise Reject("validation")
        return enc(s[1], v, env, bitmode)
    if k == "struct":
        out = []
        env2 = dict(v) if v is not None else {}
        env2["_"] = env
        for n, x in s[1]:
            sub = env2.get(n) if n else None
            if n and n not in env2 and not buildnone(x):
                raise Reject("type", "missing key")
            if x[0] == "rebuildlen":
                sub = len(env2[x[2]])
                env2[n] = sub
            out += enc(x, sub, env2, bitmode)
            if n and x[0] in ("const",):
                env2[n] = bytes.fromhex(x[1])
            if n and x[0] in ("constv",):
                env2[n] = x[1]
            if n and x[0] == "default" and sub is None:
                env2[n] = x[2]
        return out
    if k == "seq":
        out = []
        vv = list(v)
        if len(vv) < len(s[1]):
            raise Reject("type", "too few elements")
        for x, e in zip(s[1], vv):
            out += enc(x, e, env, bitmode)
        return out
    if k == "focusedseq":
        out = []
        env2 = {"_": env, s[1]: v}
        for n, x in s[2]:
            sub = v if n == s[1] else None
            if x[0] == "rebuildlen":
                sub = len(env2[x[2]])
            if n:
                env2[n] = sub
            out += enc(x, sub, env2, bitmode)
        return out
    if k == "array":
        vv = list(v)
        if len(vv) != s[1]:
            raise Reject("count")
        out = []
        for e in vv:
            out += enc(s[2], e, env, bitmode)
        return out
    if k == "arrayctx":
        n = env[s[1]] if s[2] is None else env[s[1]] % (s[2] + 1)
        if n < 0:
            raise Reject("count")
        vv = list(v)
        if len(vv) != n:
            raise Reject("count")
        out = []
        for e in vv:
            out += enc(s[3], e, env, bitmode)
        return out
    if k == "greedyrange":
        out = []
        for e in v:
            out += enc(s[1], e, env, bitmode)
        return out
    if k == "prefixedarray":
        vv = list(v)
        out = enc(s[1], len(vv), env, bitmode)
        for e in vv:
            out += enc(s[2], e, env, bitmode)
        return out
    if k == "repeatuntil":
        out = []
        for e in v:
            out += enc(s[2], e, env, bitmode)
            if same(e, s[1]):
                return out
        raise Reject("repeat")
    if k == "prefixed":
        body = enc(s[2], v, env, bitmode)
        n = len(body)
        if s[3]:
            n = n + static_size(s[1], bitmode)
        return enc(s[1], n, env, bitmode) + body
    if k == "fixedsized":
        body = enc(s[2], v, env, bitmode)
        if len(body) > s[1]:
            raise Reject("padding")
        return body + [0] * (s[1] - len(body))
    if k == "nullterminated":
        return enc(s[1], v, env, bitmode) + list(bytes.fromhex(s[2]))
    if k == "nullstripped":
        return enc(s[1], v, env, bitmode)
    if k == "padded":
        body = enc(s[2], v, env, bitmode)
        if len(body) > s[1]:
            raise Reject("padding")
        pat = bytes.fromhex(s[3])[0]
        return body + [pat] * (s[1] - len(body))
    if k == "aligned":
        body = enc(s[2], v, env, bitmode)
        pat = bytes.fromhex(s[3])[0]
        return body + [pat] * (-len(body) % s[1])
    if k == "if":
        if truth(env[s[1]]):
            return enc(s[2], v, env, bitmode)
        return []
    if k == "ifthenelse":
        if truth(env[s[1]]):
            return enc(s[2], v, env, bitmode)
        return enc(s[3], v, env, bitmode)
    if k == "switch":
        key = env[s[1]]
        for c, x in s[2]:
            if same(key, c):
                return enc(x, v, env, bitmode)
        if s[3] is None:
            return []
        return enc(s[3], v, env, bitmode)
    if k == "select":
        for x in s[1]:
            try:
                return enc(x, v, env, bitmode)
            except Reject as e:
                if e.kind == "explicit":
                    raise
        raise Reject("select")
    if k == "optional":
        try:
            return enc(s[1], v, env, bitmode)
        except Reject as e:
            if e.kind == "explicit":
                raise
            return []
    if k == "byteswapped":
        body = enc(s[1], v, env, bitmode)
        return body[::-1]
    if k == "bitsswapped":
        body = enc(s[1], v, env, bitmode)
        return [sum(bit_of(b, i) * 2 ** (7 - i) for i in range(8)) for b in body]
    if k == "xor":
        body = enc(s[2], v, env, bitmode)
        return xor_items(body, s[1])
    if k == "bitwise":
        bits = enc(s[1], v, env, True)
        if len(bits) % 8:
            raise Reject("short", "bit count not a multiple of 8")
        return [sum(bits[i + j] * 2 ** (7 - j) for j in range(8)) for i in range(0, len(bits), 8)]
    if k == "bytewise":
        body = enc(s[1], v, env, False)
        return [bit_of(b, 7 - j) for b in body for j in range(8)]
    raise NotImplementedError("ref.enc %r" % (s,))


def xor_items(items, key):
    def x8(a, b):
        return sum(((bit_of(a, i) + bit_of(b, i)) % 2) * 2 ** i for i in range(8))
    if isinstance(key, int):
        return [x8(b, key) for b in items]
    kb = bytes.fromhex(key)
    return [x8(b, kb[i % len(kb)]) for i, b in enumerate(items)]


def buildnone(x):
    """members that build without a supplied value"""
    k = x[0]
    if k in ("const", "constv", "computed", "rebuildlen", "default", "pass", "tell", "terminated", "error", "peek"):
        return True
    if k in ("struct",):
        return all(buildnone(y) for n, y in x[1])
    if k == "seq":
        return all(buildnone(y) for y in x[1])
    if k in ("padded", "aligned", "fixedsized"):
        return buildnone(x[2])
    if k in ("if",):
        return buildnone(x[2])
    if k in ("ifthenelse",):
        return buildnone(x[2]) and buildnone(x[3])
    if k == "switch":
        return all(buildnone(y) for c, y in x[2]) and (x[3] is None or buildnone(x[3]))
    if k in ("select",):
        return any(buildnone(y) for y in x[1])
    if k == "optional":
        return True
    if k in ("enum", "flagsenum", "mapping", "hex", "oneof", "noneof", "nullterminated", "nullstripped", "byteswapped",
             "bitsswapped", "bitwise", "bytewise", "rawcopy", "adapt"):
        return buildnone(x[1])
    if k in ("xor", "pointer", "prefixed"):
        return buildnone(x[2])
    return False


def same(a, b):
    """value equality that is a Python bool (forks when symbolic)"""
    ta, tb = type(a).__name__, type(b).__name__
    if isinstance(a, str) or isinstance(b, str):
        return isinstance(a, str) and isinstance(b, str) and str(a) == str(b)
    if ta in ("bytes", "SymBytes", "bytearray") or tb in ("bytes", "SymBytes", "bytearray"):
        if not (ta in ("bytes", "SymBytes", "bytearray", "HexDisplayedBytes") and tb in ("bytes", "SymBytes", "bytearray", "HexDisplayedBytes")):
            if not (isinstance(a, (bytes, bytearray)) or ta == "SymBytes") or not (isinstance(b, (bytes, bytearray)) or tb == "SymBytes"):
                return False
        if len(a) != len(b):
            return False
        for x, y in zip(a, b):
            if not (x == y):
                return False
        return True
    if a is None or b is None:
        return a is b
    if isinstance(a, (list, tuple)) and isinstance(b, (list, tuple)):
        return len(a) == len(b) and all(same(x, y) for x, y in zip(a, b))
    return bool(a == b)


# ---- decode ----------------------------------------------------------------------------------
def dec(s, buf, pos, env=None, bitmode=False):
    s = T(s)
    k = s[0]
    env = {} if env is None else env
    if k == "fmt":
        size, signed, order = name_info(s[1])
        items, pos = take(buf, pos, size)
        return dec_int(items, signed, order), pos
    if k == "bytesint":
        items, pos = take(buf, pos, s[1])
        return dec_int(items, s[2], "little" if s[3] else "big"), pos
    if k == "bytesintctx":
        w = env[s[1]]
        items, pos = take(buf, pos, int(w % 4) + 1)
        return dec_int(items, s[2], "little" if (w // 4) % 2 == 1 else "big"), pos
    if k == "bitsintctx":
        w = env[s[1]]
        return dec(("bitsint", (int(w % 2) + 1) * 8, s[2], (w // 2) % 2 == 1), buf, pos, env, bitmode)
    if k == "bitsint":
        w, signed, swapped = s[1], s[2], s[3]
        bits, pos = take(buf, pos, w)
        if swapped:
            if w % 8:
                raise Reject("range")
            groups = [bits[i:i + 8] for i in range(0, w, 8)]
            bits = [b for g in reversed(groups) for b in g]
        u = 0
        for b in bits:
            u = u * 2 + b
        if signed:
            if u >= (2 ** w) // 2:
                u = u - 2 ** w
        return u, pos
    if k == "varint":
        return dec_varint(buf, pos)
    if k == "zigzag":
        u, pos = dec_varint(buf, pos)
        if u % 2 == 0:
            return u // 2, pos
        return -((u + 1) // 2), pos
    if k == "flag":
        (b,), pos = take(buf, pos, 1)
        return (b != 0), pos
    if k == "pass":
        return None, pos
    if k == "error":
        raise Reject("explicit")
    if k == "terminated":
        if pos < len(buf):
            raise Reject("terminated")
        return None, pos
    if k == "computed":
        return env[s[1]], pos
    if k == "bytes":
        items, pos = take(buf, pos, s[1])
        return B(items), pos
    if k == "bytesctx":
        n = env[s[1]] if s[2] is None else env[s[1]] % (s[2] + 1)
        items, pos = take(buf, pos, n)
        return B(items), pos
    if k == "greedybytes":
        return B(buf[pos:]), len(buf)
    if k == "pstring":
        items, pos = take(buf, pos, s[1])
        return text_decode(strip_units(items, UNIT[s[2]]), s[2]), pos
    if k == "cstring":
        u = UNIT[s[1]]
        p = pos
        data = []
        while True:
            if p + u > len(buf):
                raise Reject("short", "terminator not found")
            unit = list(buf[p:p + u])
            p += u
            if same(unit, [0] * u):
                break
            data += unit
        return text_decode(data, s[1]), p
    if k == "pascal":
        n, pos = dec(s[1], buf, pos, env, bitmode)
        items, pos = take(buf, pos, n)
        return text_decode(items, s[2]), pos
    if k == "greedystring":
        return text_decode(list(buf[pos:]), s[1]), len(buf)
    if k == "const":
        c = bytes.fromhex(s[1])
        items, pos = take(buf, pos, len(c))
        if not same(B(items), c):
            raise Reject("const")
        return B(items), pos
    if k == "constv":
        v, pos = dec(s[2], buf, pos, env, bitmode)
        if not same(v, s[1]):
            raise Reject("const")
        return v, pos
    if k == "enum":
        v, pos = dec(s[1], buf, pos, env, bitmode)
        for l, x in s[2]:
            if v == x:
                return l, pos
        return v, pos
    if k == "flagsenum":
        v, pos = dec(s[1], buf, pos, env, bitmode)
        out = {}
        for l, x in s[2]:
            ok = True
            for i in range(x.bit_length()):
                if bit_of(x, i):
                    if v < 0:
                        raise NotImplementedError("flags of negative values")
                    if bit_of(v, i) == 0:
                        ok = False
            out[l] = ok
        return out, pos
    if k == "mapping":
        v, pos = dec(s[1], buf, pos, env, bitmode)
        for o, x in s[2]:
            if same(v, x):
                return o, pos
        raise Reject("mapping")
    if k in ("hex", "rebuildlen", "default"):
        return dec(s[1], buf, pos, env, bitmode)
    if k == "adapt":
        from .common import _xor55
        v, pos = dec(s[1], buf, pos, env, bitmode)
        return {"inc": lambda: v + 1, "xor": lambda: _xor55(v), "cls": lambda: -v}[s[2]](), pos
    if k == "oneof":
        v, pos = dec(s[1], buf, pos, env, bitmode)
        if not any(same(v, x) for x in s[2]):
            raise Reject("validation")
        return v, pos
    if k == "noneof":
        v, pos = dec(s[1], buf, pos, env, bitmode)
        if any(same(v, x) for x in s[2]):
            raise Reject("validation")
        return v, pos
    if k == "struct":
        out = {}
        env2 = {"_": env}
        for n, x in s[1]:
            v, pos = dec(x, buf, pos, env2, bitmode)
            if n:
                out[n] = v
                env2[n] = v
        return out, pos
    if k == "seq":
        out = []
        for x in s[1]:
            v, pos = dec(x, buf, pos, env, bitmode)
            out.append(v)
        return out, pos
    if k == "focusedseq":
        env2 = {"_": env}
        res = None
        for n, x in s[2]:
            v, pos = dec(x, buf, pos, env2, bitmode)
            if n:
                env2[n] = v
            if n == s[1]:
                res = v
        return res, pos
    if k == "array":
        out = []
        for i in range(s[1]):
            v, pos = dec(s[2], buf, pos, env, bitmode)
            out.append(v)
        return out, pos
    if k == "arrayctx":
        n = env[s[1]] if s[2] is None else env[s[1]] % (s[2] + 1)
        if n < 0:
            raise Reject("count")
        out = []
        i = 0
        while i < n:
            v, pos = dec(s[3], buf, pos, env, bitmode)
            out.append(v)
            i += 1
        return out, pos
    if k == "greedyrange":
        out = []
        while True:
            try:
                v, p2 = dec(s[1], buf, pos, env, bitmode)
            except Reject as e:
                if e.kind == "explicit":
                    raise
                return out, pos
            out.append(v)
            pos = p2
    if k == "prefixedarray":
        n, pos = dec(s[1], buf, pos, env, bitmode)
        if n < 0:
            raise Reject("count")
        out = []
        i = 0
        while i < n:
            v, pos = dec(s[2], buf, pos, env, bitmode)
            out.append(v)
            i += 1
        return out, pos
    if k == "repeatuntil":
        out = []
        while True:
            v, pos = dec(s[2], buf, pos, env, bitmode)
            out.append(v)
            if same(v, s[1]):
                return out, pos
    if k == "prefixed":
        n, pos = dec(s[1], buf, pos, env, bitmode)
        if s[3]:
            n = n - static_size(s[1], bitmode)
        region, pos = take(buf, pos, n)
        v, _ = dec(s[2], region, 0, env, bitmode)
        return v, pos
    if k == "fixedsized":
        region, pos = take(buf, pos, s[1])
        v, _ = dec(s[2], region, 0, env, bitmode)
        return v, pos
    if k == "nullterminated":
        term = list(bytes.fromhex(s[2]))
        u = len(term)
        include, consume, require = s[3], s[4], s[5]
        p = pos
        data = []
        while True:
            if p + u > len(buf):
                if require:
                    raise Reject("short", "terminator not found")
                p = len(buf)
                break
            unit = list(buf[p:p + u])
            if same(unit, term):
                if include:
                    data += unit
                p = p + u if consume else p
                break
            data += unit
            p += u
        v, _ = dec(s[1], data, 0, env, bitmode)
        return v, p
    if k == "nullstripped":
        pad = list(bytes.fromhex(s[2]))
        u = len(pad)
        data = list(buf[pos:])
        if u == 1:
            while data and same([data[-1]], pad):
                data.pop()
        else:
            tail = len(data) % u
            end = len(data)
            if tail and same(data[end - tail:end], pad[:tail]):
                end -= tail
            while end - u >= 0 and same(data[end - u:end], pad):
                end -= u
            data = data[:end]
        v, _ = dec(s[1], data, 0, env, bitmode)
        return v, len(buf)
    if k == "padded":
        v, p2 = dec(s[2], buf, pos, env, bitmode)
        used = p2 - pos
        if used > s[1]:
            raise Reject("padding")
        _, p3 = take(buf, p2, s[1] - used)
        return v, p3
    if k == "aligned":
        v, p2 = dec(s[2], buf, pos, env, bitmode)
        pad = -(p2 - pos) % s[1]
        _, p3 = take(buf, p2, pad)
        return v, p3
    if k == "if":
        if truth(env[s[1]]):
            return dec(s[2], buf, pos, env, bitmode)
        return None, pos
    if k == "ifthenelse":
        if truth(env[s[1]]):
            return dec(s[2], buf, pos, env, bitmode)
        return dec(s[3], buf, pos, env, bitmode)
    if k == "switch":
        key = env[s[1]]
        for c, x in s[2]:
            if same(key, c):
                return dec(x, buf, pos, env, bitmode)
        if s[3] is None:
            return None, pos
        return dec(s[3], buf, pos, env, bitmode)
    if k == "select":
        for x in s[1]:
            try:
                return dec(x, buf, pos, env, bitmode)
            except Reject as e:
                if e.kind == "explicit":
                    raise
        raise Reject("select")
    if k == "optional":
        try:
            return dec(s[1], buf, pos, env, bitmode)
        except Reject as e:
            if e.kind == "explicit":
                raise
            return None, pos
    if k == "byteswapped":
        n = static_size(s[1], bitmode)
        region, pos = take(buf, pos, n)
        v, _ = dec(s[1], region[::-1], 0, env, bitmode)
        return v, pos
    if k == "bitsswapped":
        n = static_size(s[1], bitmode)
        if n is None:
            raise NotImplementedError("unsized BitsSwapped in ref")
        region, pos = take(buf, pos, n)
        region = [sum(bit_of(b, i) * 2 ** (7 - i) for i in range(8)) for b in region]
        v, _ = dec(s[1], region, 0, env, bitmode)
        return v, pos
    if k == "xor":
        data = xor_items(list(buf[pos:]), s[1])
        v, used = dec(s[2], data, 0, env, bitmode)
        return v, len(buf)
    if k == "bitwise":
        n = static_size(s, False)
        if n is None:
            raise NotImplementedError("unsized Bitwise in ref")
        region, pos = take(buf, pos, n)
        bits = [bit_of(b, 7 - j) for b in region for j in range(8)]
        v, _ = dec(s[1], bits, 0, env, True)
        return v, pos
    if k == "bytewise":
        n = static_size(s, True)
        bits, pos = take(buf, pos, n)
        data = [sum(bits[i + j] * 2 ** (7 - j) for j in range(8)) for i in range(0, len(bits), 8)]
        v, _ = dec(s[1], data, 0, env, False)
        return v, pos
    raise NotImplementedError("ref.dec %r" % (s,))


def items_bytes(items):
    return list(items)


def B(items):
    """bytes value (bytes | SymBytes) from byte items"""
    from symx.values import mkbytes
    return mkbytes(items)
