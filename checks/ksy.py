"""checks.ksy -- a mini Kaitai Struct interpreter over byte items (int | proxy), part of the trusted base of C19.

Interprets the dictionary that Construct.export_ksy() serialises (seq / types / enums / instances).  Accepts the
exporter's dialect where it differs from standard KSY only in spelling (type names with an endianness suffix on any
width such as u1be / u3be / s5le, expressions in Python spelling such as this['n'] or (this['k'] == 1)), because a
spelling difference is not a layout difference.  Returns, per field, (id, start, end, value).
"""
import re
from .ref import Reject, bit_of, same
from symx.values import mkbytes


class KsyError(Exception):
    pass


class Unsupported(Exception):
    """the schema uses something this interpreter cannot give a layout to (reported, not ignored)"""


class Stream:
    def __init__(self, items, base=0):
        self.items = list(items)
        self.pos = 0
        self.base = base
        self.bitbuf = []       # pending bits of a partially consumed byte (MSB first)

    def align(self):
        self.bitbuf = []

    def read(self, n):
        self.align()
        if n < 0 or self.pos + n > len(self.items):
            raise KsyError("requested %s bytes, %d available" % (n, len(self.items) - self.pos))
        out = self.items[self.pos:self.pos + n]
        self.pos += n
        return out

    def read_bits(self, n):
        out = []
        while len(out) < n:
            if not self.bitbuf:
                if self.pos >= len(self.items):
                    raise KsyError("end of stream inside a bit field")
                b = self.items[self.pos]
                self.pos += 1
                self.bitbuf = [bit_of(b, 7 - j) for j in range(8)]
            out.append(self.bitbuf.pop(0))
        v = 0
        for b in out:
            v = v * 2 + b
        return v

    def eof(self):
        return self.pos >= len(self.items) and not self.bitbuf


def uint(items, little):
    items = list(items)
    if little:
        items.reverse()
    v = 0
    for b in items:
        v = v * 256 + b
    return v


def evaluate(expr, scope, last=None):
    if isinstance(expr, (int, bool)):
        return expr
    if not isinstance(expr, str) and callable(expr):
        expr = repr(expr)            # the exporter leaves expression objects in the dictionary; their repr is their spelling
    if not isinstance(expr, str):
        raise Unsupported("expression %r" % (expr,))
    if re.fullmatch(r"-?\d+", expr.strip()):
        return int(expr)
    # dialect tolerance: names resolve through the enclosing types' scopes (KSY proper would need _parent.x)
    chain, sc = [], scope
    while isinstance(sc, dict):
        chain.append(sc)
        sc = sc.get("_parent")
    ns = {}
    for sc in reversed(chain):
        ns.update(sc)
    ns["this"] = dict(ns)
    ns["_"] = last
    try:
        code = compile(expr.strip(), "<ksy>", "eval")
    except SyntaxError:
        raise Unsupported("expression %r is not evaluable" % expr)
    try:
        return eval(code, {"__builtins__": {}}, ns)
    except KeyError as e:
        raise KsyError("expression %r refers to unknown field %s" % (expr, e))
    except NameError as e:
        raise KsyError("expression %r: %s" % (expr, e))


class Interp:
    def __init__(self, schema, flt=None):
        self.schema = schema
        self.types = schema.get("types", {})
        self.enums = schema.get("enums", {})
        self.instances = schema.get("instances", {})
        self.flt = flt          # function (items, size, little) -> float value (engine-specific), optional
        self.root = None

    def run(self, items):
        st = Stream(items)
        self.root = st
        return self.seq(self.schema["seq"], st, {})

    def seq(self, seq, st, parent_scope):
        scope = {}
        scope["_parent"] = parent_scope
        fields = []
        for i, f in enumerate(seq):
            if "if" in f:
                c = evaluate(f["if"], scope)
                if not c:
                    fields.append((f.get("id"), st.base + st.pos, st.base + st.pos, None))
                    if f.get("id"):
                        scope[f["id"]] = None
                    continue
            start = st.base + st.pos
            val = self.field(f, st, scope)
            end = st.base + st.pos
            fields.append((f.get("id"), start, end, val))
            if f.get("id"):
                scope[f["id"]] = val
        return fields

    def field(self, f, st, scope):
        rep = f.get("repeat")
        if rep is None:
            return self.one(f, st, scope)
        out = []
        if rep == "expr":
            n = evaluate(f["repeat-expr"], scope)
            i = 0
            while i < n:
                out.append(self.one(f, st, scope))
                i += 1
            return out
        if rep == "eos":
            while not st.eof():
                out.append(self.one(f, st, scope))
            return out
        if rep == "until":
            while True:
                v = self.one(f, st, scope)
                out.append(v)
                if evaluate(f["repeat-until"], scope, last=v):
                    return out
        raise Unsupported("repeat %r" % rep)

    def one(self, f, st, scope):
        typ = f.get("type")
        if "contents" in f:
            want = list(f["contents"])
            got = st.read(len(want))
            if not same(got, want):
                raise KsyError("contents mismatch")
            return ("contents", mkbytes(got))
        if "terminator" in f and "size" not in f:
            term = f["terminator"]
            st.align()
            data = []
            while True:
                if st.pos >= len(st.items):
                    if f.get("eos-error", True):
                        raise KsyError("terminator not found")
                    break
                b = st.items[st.pos]
                st.pos += 1
                if b == term:
                    if f.get("include", False):
                        data.append(b)
                    if not f.get("consume", True):
                        st.pos -= 1
                    break
                data.append(b)
            if typ is None:
                return mkbytes(data)
            return self.typed(typ, f, Stream(data, 0), scope, region=True)
        if "size" in f:
            n = evaluate(f["size"], scope)
            n = int(n)
            region = st.read(n)
            start = st.base + st.pos - n
            if "pad-right" in f:
                pad = f["pad-right"]
                while region and (region[-1] == pad):
                    region = region[:-1]
            if typ is None:
                return mkbytes(region)
            return self.typed(typ, f, Stream(region, start), scope, region=True)
        if f.get("size-eos"):
            region = st.read(len(st.items) - st.pos)
            if typ is None:
                return mkbytes(region)
            return self.typed(typ, f, Stream(region, 0), scope, region=True)
        if typ is None:
            raise Unsupported("field without type/size: %r" % (f,))
        return self.typed(typ, f, st, scope, region=False)

    def typed(self, typ, f, st, scope, region):
        if typ in self.instances:
            inst = self.instances[typ]
            pos = evaluate(inst["pos"], scope)
            root = self.root
            sub = Stream(root.items, 0)
            sub.pos = int(pos)
            g = dict(inst)
            g.pop("pos")
            return self.one(g, sub, scope)
        if typ in self.types:
            fields = self.seq(self.types[typ]["seq"], st, scope)
            return Fields(fields)
        if typ in self.enums:
            raise Unsupported("enumeration %r is exported without an underlying integer type" % typ)
        m = re.fullmatch(r"([us])(\d+)(be|le)?", typ)
        if m:
            signed, size, end = m.group(1) == "s", int(m.group(2)), m.group(3)
            v = uint(st.read(size), end == "le")
            if signed:
                if v >= 256 ** size // 2:
                    v = v - 256 ** size
            if f.get("-construct-render") == "Flag":
                return v != 0
            return v
        m = re.fullmatch(r"b(\d+)", typ)
        if m:
            v = st.read_bits(int(m.group(1)))
            if f.get("-construct-render") == "Flag":
                return v != 0
            return v
        m = re.fullmatch(r"f(\d+)(be|le)?", typ)
        if m:
            size = int(m.group(1))
            items = st.read(size)
            if self.flt is None:
                raise Unsupported("float without a float decoder")
            return self.flt(items, size, m.group(2) == "le")
        if typ == "vlq_base128_le":
            n, mult = 0, 1
            while True:
                (b,) = st.read(1)
                if b >= 128:
                    n += (b - 128) * mult
                    mult *= 128
                else:
                    return n + b * mult
        if typ in ("str", "strz"):
            data = st.read(len(st.items) - st.pos) if region else None
            if data is None:
                if typ == "strz":
                    data = []
                    while True:
                        (b,) = st.read(1)
                        if b == 0:
                            break
                        data.append(b)
                else:
                    raise Unsupported("str without size")
            elif typ == "strz":
                cut = []
                for b in data:
                    if b == 0:
                        break
                    cut.append(b)
                data = cut
            return ("text", mkbytes(data), f.get("encoding"))
        raise Unsupported("type %r" % typ)


class Fields(list):
    """value of a user type: list of (id, start, end, value)"""

    def get(self, name):
        for i, s, e, v in self:
            if i == name:
                return v
        raise KeyError(name)
