"""C02 -- re-encoding parsed data is canonical and stable.

Programs: non-seeking constructs from the generator (as C01) plus curated non-canonical-input
cases.  Symbolic: ALL input bytes (so non-minimal VarInts, flags other than 0/1, arbitrary
padding, trailing bytes inside delimited regions are included, not sampled).  On every
accepting path: build accepts the parsed value; parsing the rebuilt bytes yields an equal
value; building again yields identical bytes (build-after-parse is idempotent).
"""
from symx import api
from . import common
from .common import src, mk, T, J, generate

PROPERTY = "C02"
LEVEL = "model_checking"
INSTANCE_BUDGET_S = {"quick": 90, "thorough": 600}
EXHAUSTIVE = {"quick": False, "thorough": False}
BOUNDS = {
    "quick": dict(programs="leaves + all 1-level wrappings + 80 seeded 2-level wrappings + curated", input_lengths="every byte string of length 0,1,2,3,4,6 (per program: lengths around its size)"),
    "thorough": dict(programs="as quick with 800 2-level wrappings", input_lengths="0..8"),
}
OUTSIDE = ["Optional/Select over alternatives that build from None (Const, Default, Rebuild): parse yields None when absent but build(None) emits the constant -- documented semantics of Select+Const, not canonical by design",
           "gallery formats (megabyte inputs; a bounded perturbation harness is not built)", "strings/floats (stage 2)", "Pointer/Seek/Peek (seeking constructs are excluded by the property)"]
ASSUMPTIONS = []

I8, I16l, VAR, FLAG = common.I8, common.I16l, common.VAR, common.FLAG
GB = ("greedybytes", 0)
CURATED = [
    ("select", (("struct", (("key", common.I16b), ("value", common.I16b))), ("struct", (("key", VAR),)))),
    ("greedyrange", ("select", (("struct", (("key", common.I16b), ("value", common.I16b))), ("struct", (("key", VAR),)))), 0),
    ("struct", (("s", ("select", (("seq", (I8, ("constv", 0, I8))), I8))), ("rest", GB))),
    ("flagsenum", I8, (("x", 1), ("w", 2), ("r", 4), ("rwx", 7))), ("flagsenum", common.I16b, (("lo", 1), ("mid", 0x300), ("zero", 0))),
    ("struct", (("f", ("flagsenum", I8, (("a", 1), ("ab", 3)))), ("t", I8))),
    ("bitwise", ("struct", (("a", ("bitsint", 4, True, False)), ("b", ("bitsint", 12, True, False))))),
    ("bitwise", ("struct", (("a", ("bitsint", 8, True, True)), ("b", ("bitsint", 16, True, True))))),
    ("padded", 3, I8, "00"), ("aligned", 4, VAR, "00"), ("fixedsized", 4, VAR), ("fixedsized", 3, ("nullstripped", GB, "00")),
    ("prefixed", I8, VAR, False), ("prefixed", VAR, GB, False), ("prefixed", I8, ("greedyrange", common.I16b, 0), False),
    ("nullterminated", GB, "00", False, True, False), ("nullterminated", GB, "0000", False, True, True),
    ("struct", (("n", I8), ("v", ("switch", "n", ((0, FLAG), (1, VAR)), common.I16b)), ("o", ("optional", common.I16b)))),
    ("enum", I8, (("a", 0), ("b", 255))), ("mapping", I8, (("x", 0), ("y", 1))), ("zigzag",), ("flag",),
    ("struct", (("m", ("bytesint", 3, True, True)), ("t", ("terminated",)))),
    ("xor", "5a00", ("greedyrange", I8, 0)), ("byteswapped", ("struct", (("a", I8), ("b", FLAG)))), ("bitsswapped", ("greedyrange", FLAG, 0)),
    ("repeatuntil", 0, I8, 0),
]


def _lens(spec, tier, deep):
    from .ref import static_size
    z = static_size(spec)
    top = 6 if tier == "quick" else 8
    if z is not None and z <= top:
        return sorted({z, min(top, z + 1)})
    fan = any(x[0] == "flagsenum" for x in common.walk(spec)) and any(x[0] in ("array", "arrayctx", "greedyrange", "prefixedarray") for x in common.walk(spec))
    if fan:
        return [0, 1, 2, 3]         # each parsed flag forks build: keep the repetition count small
    if deep and tier == "quick":
        return [1, 3, 5]
    return [0, 1, 2, 3, 4, 6] if tier == "quick" else list(range(0, top + 1))


def seeking(spec):
    return any(x[0] in ("pointer", "peek", "tell", "rawcopy") for x in common.walk(spec))


def instances(tier, seed):
    base = generate(tier, seed, depth2=0)
    specs = generate(tier, seed, depth2=40 if tier == "quick" else 800) + [T(J(x)) for x in CURATED]
    shallow = set(src(s) for s in base) | set(src(T(J(x))) for x in CURATED)
    out, seen = [], set()
    for s in specs:
        if src(s) in seen or seeking(s):
            continue
        seen.add(src(s))
        for n in _lens(s, tier, src(s) not in shallow):
            out.append(dict(name="%d bytes  %s" % (n, src(s)), params=dict(spec=J(s), n=n)))
    return out


def harness(ctx, C, p):
    spec = T(p["spec"])
    d = mk(C, src(spec))
    data = ctx.bytes("data", p["n"])
    r = api.outcome(d.parse, data)
    if not r.ok:
        return "reject"
    obj = r.value
    ctx.observe("parsed", obj)
    b1 = api.outcome(d.build, obj)
    ctx.check("build accepts the value parse returned", b1.ok)
    ctx.observe("rebuilt", b1.value)
    r2 = api.outcome(d.parse, b1.value)
    ctx.check("the rebuilt bytes parse", r2.ok)
    ctx.check("the rebuilt bytes parse to an equal value", ctx.eq(r2.value, obj))
    b2 = api.outcome(d.build, r2.value)
    ctx.check("building again succeeds", b2.ok)
    ctx.check("building again yields identical bytes (canonical form is stable)", ctx.eq(b2.value, b1.value))
    return "accept"
