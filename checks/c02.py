"""C02 -- re-encoding parsed data is canonical and stable.

Programs: non-seeking constructs from the generator (as C01) plus curated non-canonical-input
cases.  Symbolic: ALL input bytes (so non-minimal VarInts, flags other than 0/1, arbitrary
padding, trailing bytes inside delimited regions are included, not sampled).  On every
accepting path: build accepts the parsed value; parsing the rebuilt bytes yields an equal
value; building again yields identical bytes (build-after-parse is idempotent); the construct object
itself is unchanged (so the normal form cannot depend on earlier messages).

Gallery family (bounded perturbation): the repository's own sample of a gallery format is the base input
and a window of 2 (3) consecutive bytes is replaced by symbolic bytes -- all 65536 (2^24) values of the
window are decided at once -- for windows sliding over the structured part of the file and striding over
the rest; the small protocol headers are covered at every offset; gallery/ut_index.py (UTIndex) is small
enough for every input of 1..5 bytes.  The gallery modules are loaded from /repo with the same
instrumentation as the package (symx.loader.load_extra); number <-> text adapters there (MAC / IP
addresses, "%02x", str.format, split, int(s, 16)) are executed symbolically, digit by digit.
"""
from symx import api
from . import common
from .common import src, mk, T, J, generate

PROPERTY = "C02"
LEVEL = "model_checking"
INSTANCE_BUDGET_S = {"quick": 90, "thorough": 600}
EXHAUSTIVE = {"quick": False, "thorough": False}
BOUNDS = {
    "quick": dict(programs="leaves + all 1-level wrappings + 80 seeded 2-level wrappings + 45 curated", input_lengths="every byte string of length 0,1,2,3,4,6 (per program: lengths around its size)",
                  gallery="UTIndex: every input of 1..5 bytes; mbr, gif, wmf, png samples: every 2-byte window in the structured part (QUICK_REGIONS) + 16 strided windows; "
                          "ethernet, arp, ipv4, ipv6, icmp (2 samples), igmp, tcp, udp, dhcp6, dns samples: every 2-byte window, one symbolic byte inserted at every offset, every prefix with its last two bytes symbolic"),
    "thorough": dict(programs="as quick with 800 2-level wrappings", input_lengths="0..8", gallery="every 2-byte window of every sample + 3-byte windows over the structured parts"),
}
OUTSIDE = ["Optional/Select over alternatives that build from None (Const, Default, Rebuild): parse yields None when absent but build(None) emits the constant -- documented semantics of Select+Const, not canonical by design",
           "gallery formats that seek (bmp, emf, pe32, elf32, gallery/pe32coff, gallery/elf: Pointer regions can overlap other fields once an offset is perturbed -- the property is stated for sequential constructs), "
           "that convert through the C library's local time (cap: datetime, snoop: time.ctime) or that have no sample in the repository (ext2, fat16); perturbations wider than 3 bytes or at several places at once; "
           "insertions into and truncations of the file-sized gallery samples (done for the protocol headers; for the grammar's constructs the all-lengths family covers them)",
           "floats", "Pointer/Seek/Peek (seeking constructs are excluded by the property)"]
ASSUMPTIONS = []

I8, I16l, VAR, FLAG = common.I8, common.I16l, common.VAR, common.FLAG
GB = ("greedybytes", 0)
CURATED = [
    ("select", (("struct", (("key", common.I16b), ("value", common.I16b))), ("struct", (("key", VAR),)))),
    ("greedyrange", ("select", (("struct", (("key", common.I16b), ("value", common.I16b))), ("struct", (("key", VAR),)))), 0),
    ("struct", (("s", ("select", (("seq", (I8, ("constv", 0, I8))), I8))), ("rest", GB))),
    ("flagsenum", I8, (("x", 1), ("w", 2), ("r", 4), ("rwx", 7))), ("flagsenum", common.I16b, (("lo", 1), ("mid", 0x300), ("zero", 0))),
    ("struct", (("f", ("flagsenum", I8, (("a", 1), ("ab", 3)))), ("t", I8))),
    ("bitwise", ("struct", (("a", ("bitsint", 4, True, False)), ("b", ("bitsint", 12, True, False))))),
    ("bitwise", ("struct", (("a", ("bitsint", 8, True, True)), ("b", ("bitsint", 16, True, True))))),
    ("padded", 3, I8, "00"), ("aligned", 4, VAR, "00"), ("fixedsized", 4, VAR), ("fixedsized", 3, ("nullstripped", GB, "00")),
    ("prefixed", I8, VAR, False), ("prefixed", VAR, GB, False), ("prefixed", I8, ("greedyrange", common.I16b, 0), False),
    ("nullterminated", GB, "00", False, True, False), ("nullterminated", GB, "0000", False, True, True),
    ("struct", (("n", I8), ("v", ("switch", "n", ((0, FLAG), (1, VAR)), common.I16b)), ("o", ("optional", common.I16b)))),
    ("enum", I8, (("a", 0), ("b", 255))), ("mapping", I8, (("x", 0), ("y", 1))), ("zigzag",), ("flag",),
    ("struct", (("m", ("bytesint", 3, True, True)), ("t", ("terminated",)))),
    ("xor", "5a00", ("greedyrange", I8, 0)), ("byteswapped", ("struct", (("a", I8), ("b", FLAG)))), ("bitsswapped", ("greedyrange", FLAG, 0)),
    ("repeatuntil", 0, I8, 0),
    ("adapt", common.I16b, "inc"), ("adapt", I8, "xor"), ("adapt", ("fmt", "Int16sb"), "cls"), ("struct", (("n", ("adapt", I8, "inc")), ("d", ("bytesctx", "n", 3)))),
    ("greedyrange", ("adapt", VAR, "inc"), 0),
    # variable-size bit regions (streaming implementation) written in pieces smaller than a byte
    ("raw", "Bitwise(Struct('n'/BitsInteger(3), 'f'/Flag, 'r'/Array(this.n & 1, Nibble), 't'/Nibble))"), ("raw", "Bitwise(Struct('a'/BitsInteger(2), 'b'/BitsInteger(1), 'c'/If(this.a, BitsInteger(8)), 'd'/BitsInteger(5)))"),
    ("raw", "Bitwise(Struct('k'/BitsInteger(1), 'x'/BitsInteger(2), 'v'/Switch(this.k, {0: BitsInteger(5), 1: BitsInteger(13)})))"), ("raw", "Bitwise(Array(3, Struct('a'/BitsInteger(3), 'b'/Flag, 'c'/If(this.b, BitsInteger(4)))))"),
    # transforms and aligned members inside fixed-size transformed regions
    ("raw", "ProcessRotateLeft(8, 4, Bytes(4))"), ("raw", "ProcessRotateLeft(16, 3, Bytes(3))"), ("raw", "ProcessRotateLeft(3, 2, Bytes(2))"), ("raw", "ProcessRotateLeft(24, 4, GreedyBytes)"),
    ("raw", "ByteSwapped(Aligned(2, Int16ub))"), ("raw", "Bitwise(Aligned(8, Octet))"), ("raw", "BitsSwapped(Struct('a'/Aligned(2, Bytes(2)), 'b'/Byte))"), ("raw", "ByteSwapped(Struct('a'/Aligned(4, Pass), 'b'/Int16ub))"),
    # members cut short by StopIf: the parsed value is shorter than the member list and must still build
    ("raw", "Sequence('a'/Byte, StopIf(this.a == 0), 'b'/Byte)"), ("raw", "Struct('a'/Byte, StopIf(this.a == 0), 'b'/Byte)"), ("raw", "Sequence(StopIf(True), Byte)"),
    ("raw", "Struct('s'/Sequence('a'/Byte, StopIf(this.a & 1), 'b'/Int16ub), 't'/Byte)"), ("raw", "GreedyRange(Sequence('a'/Byte, StopIf(this.a == 0), 'b'/Byte))"),
    # alignment / padding that starts at an offset which is not a multiple of the modulus
    ("struct", (("tag", I8), ("val", ("aligned", 4, common.I16b, "00")))), ("struct", (("tag", I8), ("val", ("aligned", 4, VAR, "00"))), ),
    ("greedyrange", ("struct", (("tag", I8), ("val", ("aligned", 2, I8, "00")))), 0),
    ("struct", (("tag", I8), ("val", ("padded", 3, VAR, "00")), ("t", I8))),
    ("seq", (I8, ("aligned", 4, ("seq", (I8, ("aligned", 2, I8, "00"))), "00"))),
    # multi-byte terminators where EOF may stand in for the terminator: input cut in the middle of a unit
    ("nullterminated", GB, "0000", False, True, False), ("nullterminated", GB, "0000", True, True, False), ("nullterminated", GB, "0000", False, False, False),
    ("nullterminated", GB, "000000", False, True, False), ("struct", (("s", ("nullterminated", GB, "ff00", False, True, False)),)),
    ("nullterminated", ("greedyrange", common.I16b, 0), "0000", False, True, False),
    # length fields whose own size comes from the context (includelength counts that size too)
    ("struct", (("w", I8), ("p", ("prefixed", ("bytesintctx", "w", False), GB, True)))),
    ("struct", (("w", I8), ("p", ("prefixed", ("bytesintctx", "w", False), VAR, False)), ("t", I8))),
    ("struct", (("w", I8), ("v", ("bytesintctx", "w", True)), ("u", ("bitwise", ("bitsintctx", "w", False))))),
]


def _lens(spec, tier, deep):
    from .ref import static_size
    z = static_size(spec)
    top = 6 if tier == "quick" else 8
    if z is not None and z <= top:
        return sorted({z, min(top, z + 1)})
    fan = any(x[0] == "flagsenum" for x in common.walk(spec)) and any(x[0] in ("array", "arrayctx", "greedyrange", "prefixedarray") for x in common.walk(spec))
    if fan:
        return [0, 1, 2, 3]         # each parsed flag forks build: keep the repetition count small
    if deep and tier == "quick":
        return [1, 3, 5]
    return [0, 1, 2, 3, 4, 6] if tier == "quick" else list(range(0, top + 1))


# ---------------------------------------------------------------------------------------------
# gallery formats: bounded perturbation.  The repository's own sample of each format is the base
# input; a window of w consecutive bytes is replaced by symbolic bytes (all 2^(8w) values at once),
# for windows sliding over the file.  UTIndex is small enough for every input of 1..5 bytes.
BLOBS = "tests/deprecated_gallery/blobs/"
GALLERY = {
    # key: (source file, expression, sample: blob file name or hex)
    "utindex": ("gallery/ut_index.py", "UTIndex()", None),
    "mbr": ("deprecated_gallery/mbr.py", "mbr_format", "mbr1"),
    "gif": ("deprecated_gallery/gif.py", "gif_file", "sample.gif"),
    "wmf": ("deprecated_gallery/wmf.py", "wmf_file", "wmf1.wmf"),
    "png": ("deprecated_gallery/png.py", "png_file", "sample.png"),
    "ethernet": ("deprecated_gallery/ipstack.py", "ethernet_header", "0011508c283c0002e34260090800"),
    "arp": ("deprecated_gallery/ipstack.py", "arp_header", "00010800060400010002e3426009c0a80204000000000000c0a80201"),
    "ipv4": ("deprecated_gallery/ipstack.py", "ipv4_header", "4500003ca0e3000080116185c0a80205d474a126"),
    "ipv6": ("deprecated_gallery/ipstack.py", "ipv6_header", "6ff00000010206803031323334353637383941424344454646454443424139383736353433323130"),
    "icmp": ("deprecated_gallery/ipstack.py", "icmp_header", "0800305c02001b006162636465666768696a6b6c6d6e6f7071727374757677616263646566676869"),
    "icmp3": ("deprecated_gallery/ipstack.py", "icmp_header", "0301000000001122aabbccdd0102030405060708"),
    "igmp": ("deprecated_gallery/ipstack.py", "igmpv2_header", "1600FA01EFFFFFFD"),
    "tcp": ("deprecated_gallery/ipstack.py", "tcp_header", "0db5005062303fb21836e9e650184470c9bc0000"),
    "udp": ("deprecated_gallery/ipstack.py", "udp_header", "0bcc003500280689"),
    "dhcp6": ("deprecated_gallery/ipstack.py", "dhcp6_message", "0311223300170003414243000500054845 4c4c4f".replace(" ", "")),
    "dns": ("deprecated_gallery/ipstack.py", "dns", "2624010000010000000000000377777706676f6f676c6503636f6d0000010001"),
}
# bytes that are bit-structs of flags/enums: every bit forks parse and build, so a window never spans two of them
DENSE = {"dns": (2, 3)}
# quick tier, files larger than 64 bytes: every window inside the structured part + a stride over the rest
QUICK_REGIONS = {"mbr": [(440, 512)], "gif": [(0, 40)], "wmf": [(0, 40)], "png": [(0, 48)]}
_GCACHE = {}


def _gallery(C, key):
    rel, expr, sample = GALLERY[key]
    k = (id(C), rel)
    m = _GCACHE.get(k)
    if m is None:
        from symx.loader import load_extra
        m = _GCACHE[k] = load_extra(C, rel)
    d = eval(expr, m.__dict__)
    if getattr(C, "instrumented", False):
        from symx.loader import wrap_instance_tables
        wrap_instance_tables(d)
    if sample is None:
        data = None
    elif "." in sample or not all(c in "0123456789abcdefABCDEF" for c in sample):
        with open("%s/%s%s" % (C.root, BLOBS, sample), "rb") as f:
            data = f.read()
    else:
        data = bytes.fromhex(sample)
    return d, data


def _gallery_instances(tier, root="/repo"):
    import os
    out = []
    for n in range(1, 6):
        out.append(dict(name="gallery UTIndex: every input of %d bytes" % n, params=dict(gallery="utindex", n=n), expect=["accept"]))
    for key, (rel, expr, sample) in GALLERY.items():
        if sample is None:
            continue
        if "." in sample or not all(c in "0123456789abcdefABCDEF" for c in sample):
            fn = "%s/%s%s" % (root, BLOBS, sample)
            size = os.path.getsize(fn) if os.path.exists(fn) else 0
        else:
            size = len(sample) // 2
        wins = set()
        if size <= 64 or tier == "thorough":
            wins |= {(o, 2) for o in range(0, size - 1)}
        else:
            for a, b in QUICK_REGIONS.get(key, [(0, 40)]):
                wins |= {(o, 2) for o in range(a, min(b, size - 1))}
            wins |= {(o, 2) for o in range(0, size - 1, max(2, size // 16))}
            wins.add((size - 2, 2))
        if tier == "thorough":
            for a, b in QUICK_REGIONS.get(key, [(0, min(size, 64))]):
                wins |= {(o, 3) for o in range(a, min(b, size - 2))}
        dense = DENSE.get(key, ())
        wins = {(o, w) for o, w in wins if sum(1 for b in range(o, o + w) if b in dense) <= 1} | {(b, 1) for b in dense}
        for o, w in sorted(wins):
            nm = "gallery %s (%s): bytes[%d:%d] symbolic" % (expr, sample if len(sample) < 20 else sample[:12] + "..", o, o + w)
            if key == "dns" and o + w > 12 and o < size - 4:
                # the name region: inputs with a '.' byte inside a label were a recorded finding until the escaping fix in
                # deprecated_gallery/ipstack.py; they stay instances of their own (both classes are hard obligations now)
                out.append(dict(name=nm + ", no 0x2e in the window", params=dict(gallery=key, off=o, w=w, dot=False), expect=["accept"]))
                out.append(dict(name=nm + ", a 0x2e ('.') in the window", params=dict(gallery=key, off=o, w=w, dot=True)))
                continue
            out.append(dict(name=nm, params=dict(gallery=key, off=o, w=w), expect=["accept"]))
        if size <= 64:
            # insertions (one symbolic byte pushed in at every offset) and truncations (every prefix, its last two bytes symbolic)
            tag = "gallery %s (%s)" % (expr, sample if len(sample) < 20 else sample[:12] + "..")
            for o in range(0, size + 1):
                out.append(dict(name="%s: one symbolic byte inserted at %d" % (tag, o), params=dict(gallery=key, ins=o)))
            for k in range(1, size):
                out.append(dict(name="%s: truncated to %d bytes, the last two symbolic" % (tag, k), params=dict(gallery=key, trunc=k)))
    return out


def _gallery_harness(ctx, C, p):
    d, base = _gallery(C, p["gallery"])
    if base is None:
        data = ctx.bytes("data", p["n"])
    elif "ins" in p:
        o = p["ins"]
        data = base[:o] + ctx.bytes("inserted", 1) + base[o:]
    elif "trunc" in p:
        k = p["trunc"]
        w = min(2, k)
        data = base[:k - w] + ctx.bytes("tail", w)
    else:
        o, w = p["off"], p["w"]
        win = ctx.bytes("window", w)
        if "dot" in p:
            hasdot = api.or_terms([ctx.eq(win[i], 0x2e) for i in range(w)])
            ctx.assume(hasdot if p["dot"] else api.not_term(hasdot))
        data = base[:o] + win + base[o + w:]
    return _roundtrip(ctx, d, data)


def seeking(spec):
    return any(x[0] in ("pointer", "peek", "tell", "rawcopy") for x in common.walk(spec))


def instances(tier, seed):
    base = generate(tier, seed, depth2=0)
    specs = generate(tier, seed, depth2=40 if tier == "quick" else 800) + [T(J(x)) for x in CURATED]
    shallow = set(src(s) for s in base) | set(src(T(J(x))) for x in CURATED)
    out, seen = [], set()
    for s in specs:
        if src(s) in seen or seeking(s):
            continue
        seen.add(src(s))
        for n in _lens(s, tier, src(s) not in shallow):
            out.append(dict(name="%d bytes  %s" % (n, src(s)), params=dict(spec=J(s), n=n)))
    return out + _gallery_instances(tier)


def harness(ctx, C, p):
    if "gallery" in p:
        return _gallery_harness(ctx, C, p)
    spec = T(p["spec"])
    d = mk(C, src(spec))
    common.warmup(d, p["n"])
    data = ctx.bytes("data", p["n"])
    return _roundtrip(ctx, d, data)


class _NoMods:
    modules = {}


def _roundtrip(ctx, d, data):
    from .c17 import fingerprint
    f0 = fingerprint(_NoMods, [d])
    r = api.outcome(d.parse, data)
    if not r.ok:
        return "reject"
    obj = r.value
    ctx.observe("parsed", obj)
    b1 = api.outcome(d.build, obj)
    ctx.check("build accepts the value parse returned", b1.ok)
    ctx.observe("rebuilt", b1.value)
    r2 = api.outcome(d.parse, b1.value)
    ctx.check("the rebuilt bytes parse", r2.ok)
    ctx.check("the rebuilt bytes parse to an equal value", ctx.eq(r2.value, obj))
    b2 = api.outcome(d.build, r2.value)
    ctx.check("building again succeeds", b2.ok)
    ctx.check("building again yields identical bytes (canonical form is stable)", ctx.eq(b2.value, b1.value))
    ctx.check("parse and build leave the construct object as it was (the normal form cannot depend on earlier messages)", f0 == fingerprint(_NoMods, [d]))
    return "accept"
