"""C12 -- documented construct equivalences hold extensionally.

Programs: every `<-->` law of the documentation instantiated over its parameters (enumerated).
Symbolic: all input bytes (lengths around the size) and all build values (range widened so
that out-of-range values are included).  Obligation: both sides parse every byte string to
equal values or both reject it; both sides build every value to identical bytes or both reject.
Relational: the two sides are the oracle for each other.
"""
import os
import re
from symx import api
from .common import mk, domain, T, J, FMT, name_info

PROPERTY = "C12"
LEVEL = "model_checking"
INSTANCE_BUDGET_S = {"quick": 90, "thorough": 600}
EXHAUSTIVE = {"quick": False, "thorough": False}
BOUNDS = {
    "quick": dict(bytesinteger_widths="1..4 bytes (x signed x swapped)", buffers="size-1, size, size+1 (fixed) / 0..4 (variable)",
                  values="native range widened by one bit on both sides"),
    "thorough": dict(bytesinteger_widths="1..16 bytes", buffers="as quick, variable 0..6", values="as quick"),
}
OUTSIDE = ["Restreamed spelling of Bitwise/Bytewise (the docstring's argument order is not the implementation's)",
           "`Byte * parsedhook` (user callback)"]
ASSUMPTIONS = ["'both reject' is compared as: both raise (the exception classes may differ, e.g. FormatFieldError vs IntegerError)"]

KNOWN_LAWS = [
    "BytesInteger(n) <--> Bitwise(BitsInteger(8*n))", "BitsInteger(8*n) <--> Bytewise(BytesInteger(n))",
    "BytesInteger(n, swapped=True) <--> Bitwise(BitsInteger(8*n, swapped=True))",
    "Enum(Byte, E) <--> Enum(Byte, one=1, two=2)", "FlagsEnum(Byte, E) <--> FlagsEnum(Byte, one=1, two=2)",
    "PrefixedArray <--> FocusedSeq(\"items\",", "Optional <--> Select(subcon, Pass)", "If <--> IfThenElse(condfunc, subcon, Pass)",
    "BitStruct <--> Bitwise(Struct(...))",
    "Int24ul <--> ByteSwapped(Int24ub) <--> BytesInteger(3, swapped=True) <--> ByteSwapped(BytesInteger(3))",
    "Bitwise <--> Restreamed(subcon, bits2bytes, 8, bytes2bits, 1, lambda n: n//8)",
    "Bytewise <--> Restreamed(subcon, bytes2bits, 1, bits2bytes, 8, lambda n: n*8)",
    "Byte <--> Int8ub", "Short <--> Int16ub", "Int <--> Int32ub", "Long <--> Int64ub", "Half <--> Float16b", "Single <--> Float32b",
    "Double <--> Float64b", "Bit <--> BitsInteger(1)", "Nibble <--> BitsInteger(4)", "Octet <--> BitsInteger(8)",
    "\"num\" / Byte <--> Renamed(Byte, newname=\"num\")", "Byte * \"comment\" <--> Renamed(Byte, newdocs=\"comment\")",
    "Byte * parsedhook <--> Renamed(byte, newparsed=parsedhook)",
]


def scan_laws(root="/repo"):
    found = set()
    files = [os.path.join(root, "construct", "core.py")]
    d = os.path.join(root, "docs")
    if os.path.isdir(d):
        files += [os.path.join(d, f) for f in sorted(os.listdir(d)) if f.endswith(".rst")]
    for f in files:
        try:
            for line in open(f, encoding="utf-8"):
                if "<-->" in line:
                    found.add(" ".join(line.strip().split()))
        except OSError:
            pass
    return found


def law_registry_report(root="/repo"):
    found = scan_laws(root)
    known = set(" ".join(k.split()) for k in KNOWN_LAWS)
    return dict(unrecognised=sorted(found - known), vanished=sorted(known - found))


def _i(name, lhs, rhs, parse_lens, dom=None, kw=None, extra=None, wrap=None):
    return dict(name=name, lhs=lhs, rhs=rhs, parse_lens=parse_lens, dom=dom, kw=kw or [], extra=extra, wrap=wrap)


def laws(tier):
    out = []
    widths = [1, 2, 3, 4] if tier == "quick" else [1, 2, 3, 4, 5, 8, 12, 16]
    for n in widths:
        for signed in (False, True):
            for swapped in (False, True):
                a = "BytesInteger(%d, signed=%r, swapped=%r)" % (n, signed, swapped)
                b = "Bitwise(BitsInteger(%d, signed=%r, swapped=%r))" % (8 * n, signed, swapped)
                c = "Bitwise(Bytewise(BytesInteger(%d, signed=%r, swapped=%r)))" % (n, signed, swapped)
                dom = ("bytesint", n, signed, swapped)
                out.append(_i("BytesInteger<->Bitwise(BitsInteger) n=%d s=%d sw=%d" % (n, signed, swapped), a, b, [n - 1, n, n + 1], dom))
                if n <= 2 or tier == "thorough":
                    out.append(_i("BitsInteger<->Bytewise(BytesInteger) n=%d s=%d sw=%d" % (n, signed, swapped), b, c, [n - 1, n, n + 1], dom))
    for s in "us":
        dom = ("bytesint", 3, s == "s", True)
        base = "Int24%sl" % s
        for alt in ("ByteSwapped(Int24%sb)" % s, "BytesInteger(3, signed=%r, swapped=True)" % (s == "s"),
                    "ByteSwapped(BytesInteger(3, signed=%r))" % (s == "s")):
            out.append(_i("%s<->%s" % (base, alt), base, alt, [2, 3, 4], dom))
    for name in sorted(FMT):
        size, signed, order = name_info(name)
        if size == 3:
            continue
        ch = {1: "b", 2: "h", 4: "l", 8: "q"}[size]
        e = {"b": ">", "l": "<", "n": "="}[FMT[name][2]]
        ff = "FormatField(%r, %r)" % (e, ch if signed else ch.upper())
        bi = "BytesInteger(%d, signed=%r, swapped=%r)" % (size, signed, order == "little")
        dom = ("fmt", name)
        if name in ("Byte", "Short", "Int", "Long"):
            out.append(_i("%s<->Int%dub" % (name, 8 * size), name, "Int%dub" % (8 * size), [size - 1, size, size + 1], dom))
        else:
            out.append(_i("%s<->%s" % (name, ff), name, ff, [size - 1, size, size + 1], dom))
            out.append(_i("%s<->%s" % (name, bi), name, bi, [size - 1, size, size + 1], dom))
    for a, b, n in (("Half", "Float16b", 2), ("Single", "Float32b", 4), ("Double", "Float64b", 8)):
        out.append(_i("%s<->%s" % (a, b), a, b, [n - 1, n, n + 1], None))
    for a, w, cnt in (("Bit", 1, 8), ("Nibble", 4, 2), ("Octet", 8, 1)):
        out.append(_i("%s<->BitsInteger(%d)" % (a, w), "Bitwise(Array(%d, %s))" % (cnt, a), "Bitwise(Array(%d, BitsInteger(%d)))" % (cnt, w),
                      [0, 1, 2], ("array", cnt, ("bitsint", w, False, False))))
    subs = [("Int16ub", ("fmt", "Int16ub")), ("Const(b'\\x01')", ("const", "01")), ("VarInt", ("varint",)),
            ("Struct('a'/Byte, 'b'/Int8sb)", ("struct", [["a", ("fmt", "Int8ub")], ["b", ("fmt", "Int8sb")]]))]
    for s, dom in subs:
        out.append(_i("Optional<->Select(x, Pass) x=%s" % s, "Optional(%s)" % s, "Select(%s, Pass)" % s, [0, 1, 2, 3], ("optionalv", dom)))
        out.append(_i("If<->IfThenElse(c, x, Pass) x=%s" % s, "Struct('k'/Byte, 'v'/If(this.k, %s))" % s,
                      "Struct('k'/Byte, 'v'/IfThenElse(this.k, %s, Pass))" % s, [0, 1, 2, 3, 4],
                      ("struct", [["k", ("fmt", "Int8ub")], ["v", ("if", "k", dom)]])))
        out.append(_i("If<->IfThenElse kw x=%s" % s, "If(this.c, %s)" % s, "IfThenElse(this.c, %s, Pass)" % s, [0, 1, 2, 3], ("optionalv", dom), kw=["c"]))
    for n in (0, 1, 3):
        out.append(_i("Padding(%d)<->Padded(%d, Pass)" % (n, n), "Padding(%d)" % n, "Padded(%d, Pass)" % n, [max(0, n - 1), n, n + 1], ("none",)))
    out.append(_i("Padding(2, pattern)<->Padded(2, Pass, pattern)", "Padding(2, pattern=b'\\xee')", "Padded(2, Pass, pattern=b'\\xee')", [1, 2, 3], ("none",)))
    for c, cs, x, xs, k in (("Byte", ("fmt", "Int8ub"), "Int16ul", ("fmt", "Int16ul"), 2), ("VarInt", ("varint",), "Byte", ("fmt", "Int8ub"), 3),
                            ("Int16sb", ("fmt", "Int16sb"), "Byte", ("fmt", "Int8ub"), 1)):
        out.append(_i("PrefixedArray<->FocusedSeq c=%s x=%s" % (c, x), "PrefixedArray(%s, %s)" % (c, x),
                      "FocusedSeq('items', 'count'/Rebuild(%s, len_(this.items)), 'items'/%s[this.count])" % (c, x), [0, 1, 2, 3, 4, 5],
                      ("array", k, xs)))
    bs = "'a'/BitsInteger(3), 'b'/BitsInteger(5, signed=True), 'c'/Flag, 'd'/Padding(2), 'e'/BitsInteger(5)"
    out.append(_i("BitStruct<->Bitwise(Struct)", "BitStruct(%s)" % bs, "Bitwise(Struct(%s))" % bs, [1, 2, 3],
                  ("struct", [["a", ("bitsint", 3, False, False)], ["b", ("bitsint", 5, True, False)], ["c", ("flag",)], ["e", ("bitsint", 5, False, False)]])))
    out.append(_i("Enum(Byte, E)<->keywords", "Enum(Byte, E)", "Enum(Byte, one=1, two=2)", [0, 1, 2], ("enum", ("fmt", "Int8ub"), [["one", 1], ["two", 2]]), extra="E"))
    out.append(_i("Enum(Int16sb, E)<->keywords", "Enum(Int16sb, E)", "Enum(Int16sb, one=1, two=2)", [1, 2], ("enum", ("fmt", "Int16sb"), [["one", 1], ["two", 2], ["three", 3]]), extra="E"))
    out.append(_i("FlagsEnum(Byte, F)<->keywords", "FlagsEnum(Byte, F)", "FlagsEnum(Byte, one=1, two=2, eight=8)", [0, 1, 2],
                  ("flagsenum", ("fmt", "Int8ub"), [["one", 1], ["two", 2], ["eight", 8]]), extra="F"))
    # enum classes with aliases / combined and zero-valued flag names: iteration over the class (what the law's left side
    # uses) yields the canonical members only
    out.append(_i("Enum(Byte, E with alias)<->keywords", "Enum(Byte, E)", "Enum(Byte, one=1, two=2)", [0, 1, 2], ("enum", ("fmt", "Int8ub"), [["one", 1], ["two", 2], ["uno", 1]]), extra="E2"))
    out.append(_i("FlagsEnum(Byte, F with combined names)<->keywords", "FlagsEnum(Byte, F)", "FlagsEnum(Byte, one=1, two=2, eight=8)", [0, 1, 2],
                  ("flagsenum", ("fmt", "Int8ub"), [["one", 1], ["two", 2], ["eight", 8]]), extra="F2"))
    for w in ("Hex", "HexDump"):
        for nm, sz in (("Int8sb", 1), ("Int16sl", 2), ("Int24sb", 3)):
            if w == "Hex":
                out.append(_i("%s(%s)<->%s" % (w, nm, nm), "%s(%s)" % (w, nm), nm, [sz - 1, sz, sz + 1], ("fmt", nm) if sz != 3 else ("bytesint", 3, True, False)))
        out.append(_i("%s(Int32ul)<->Int32ul" % w, "%s(Int32ul)" % w, "Int32ul", [3, 4, 5], ("fmt", "Int32ul")))
        out.append(_i("%s(Bytes(3))<->Bytes(3)" % w, "%s(Bytes(3))" % w, "Bytes(3)", [2, 3, 4], ("bytes", 3)))
        out.append(_i("%s(Struct)<->Struct" % w, "%s(Struct('a'/Byte,'b'/VarInt))" % w, "Struct('a'/Byte,'b'/VarInt)", [1, 2, 3],
                      ("struct", [["a", ("fmt", "Int8ub")], ["b", ("varint",)]])))
    for w in ("Hex", "HexDump"):
        out.append(_i("%s(BytesInteger(this.n))<->bare (keyword size)" % w, "%s(BytesInteger(this.n + 1))" % w, "BytesInteger(this.n + 1)", [0, 1, 2, 3, 4], None, kw=["n"]))
        out.append(_i("%s(Bytes(this.n))<->bare (keyword size)" % w, "%s(Bytes(this.n))" % w, "Bytes(this.n)", [0, 1, 2, 3], None, kw=["n"]))
        out.append(_i("%s in Struct with field-sized member" % w, "Struct('n'/Byte, 'v'/%s(BytesInteger(this.n & 3 | 1)))" % w, "Struct('n'/Byte, 'v'/BytesInteger(this.n & 3 | 1))", [0, 1, 2, 3, 4],
                      None))
    out.append(_i("x[n]<->Array", "Int16ub[2]", "Array(2, Int16ub)", [3, 4, 5], ("array", 2, ("fmt", "Int16ub"))))
    out.append(_i("x[this.n]<->Array(this.n)", "Byte[this.n]", "Array(this.n, Byte)", [0, 1, 2, 3], ("arraykw", "n", ("fmt", "Int8ub")), kw=["n"]))
    out.append(_i("a+b<->Struct", "'a'/Byte + 'b'/Int16sl + 'c'/VarInt", "Struct('a'/Byte, 'b'/Int16sl, 'c'/VarInt)", [2, 3, 4, 5],
                  ("struct", [["a", ("fmt", "Int8ub")], ["b", ("fmt", "Int16sl")], ["c", ("varint",)]])))
    out.append(_i("a+named Struct+c<->Struct with a nested member", "'a'/Byte + 'inner'/Struct('b'/Byte, 'z'/Int16ub) + 'c'/Byte", "Struct('a'/Byte, 'inner'/Struct('b'/Byte, 'z'/Int16ub), 'c'/Byte)", [3, 4, 5, 6],
                  ("struct", [["a", ("fmt", "Int8ub")], ["inner", ("struct", [["b", ("fmt", "Int8ub")], ["z", ("fmt", "Int16ub")]])], ["c", ("fmt", "Int8ub")]])))
    out.append(_i("a>>named Sequence>>c<->Sequence with a nested member", "Byte >> 's'/Sequence(Byte, Int16ub) >> Byte", "Sequence(Byte, 's'/Sequence(Byte, Int16ub), Byte)", [3, 4, 5, 6],
                  ("seq", [("fmt", "Int8ub"), ("seq", [("fmt", "Int8ub"), ("fmt", "Int16ub")]), ("fmt", "Int8ub")])))
    out.append(_i("documented Struct operand stays nested", "'a'/Byte + (Struct('b'/Byte) * 'doc') + 'c'/Byte", "Struct('a'/Byte, Struct('b'/Byte) * 'doc', 'c'/Byte)", [2, 3, 4], None))
    for sg in (False, True):
        out.append(_i("BytesInteger(this.n)<->Bitwise(BitsInteger(8*this.n)) s=%d" % sg, "BytesInteger(this.n + 1, signed=%r)" % sg, "Bitwise(BitsInteger(8 * (this.n + 1), signed=%r))" % sg, [0, 1, 2, 3, 4], None, kw=["n"]))
    out.append(_i("a>>b<->Sequence", "Byte >> Int16sl >> VarInt", "Sequence(Byte, Int16sl, VarInt)", [2, 3, 4, 5],
                  ("seq", [("fmt", "Int8ub"), ("fmt", "Int16sl"), ("varint",)])))
    out.append(_i("name/x<->Renamed", "Struct('num'/Byte, 'd'/Bytes(this.num & 1))", "Struct(Renamed(Byte, newname='num'), Renamed(Bytes(this.num & 1), newname='d'))",
                  [0, 1, 2, 3], ("struct", [["num", ("fmt", "Int8ub")], ["d", ("bytesctx", "num", 1)]])))
    out.append(_i("x*doc<->Renamed(newdocs)", "Struct('a'/Byte * 'comment')", "Struct('a'/Renamed(Byte, newdocs='comment'))", [0, 1, 2],
                  ("struct", [["a", ("fmt", "Int8ub")]])))
    return out


def instances(tier, seed):
    out = []
    rep = law_registry_report()
    BOUNDS[tier]["law_registry"] = rep
    for law in laws(tier):
        base = dict(lhs=law["lhs"], rhs=law["rhs"], kw=law["kw"], extra=law["extra"], tier=tier)
        for n in sorted(set(law["parse_lens"])):
            if n < 0:
                continue
            out.append(dict(name="parse%d %s" % (n, law["name"]), params=dict(base, op="parse", n=n)))
        if law["dom"] is not None:
            out.append(dict(name="build  %s" % law["name"], params=dict(base, op="build", dom=J(law["dom"]))))
        out.append(dict(name="embed  %s" % law["name"], params=dict(base, op="embed")))
    for op_, ctor in (("+", "Struct"), (">>", "Sequence")):
        out.append(dict(name="chain  header = a %s b; packet = header %s c leaves header alone" % (op_, op_), params=dict(op="chain", oper=op_, ctor=ctor, tier=tier, kw=[], extra=None, lhs="", rhs="")))
    return out


def _extra(C, which):
    if not which:
        return None
    import enum
    if which == "E":
        class E(enum.IntEnum):
            one = 1
            two = 2
        if True:
            E3 = enum.IntEnum("E", dict(one=1, two=2))
        return {"E": E}
    if which == "E2":
        class E(enum.IntEnum):
            one = 1
            two = 2
            uno = 1
        return {"E": E}
    if which == "F2":
        class F(enum.IntFlag):
            none = 0
            one = 1
            two = 2
            eight = 8
            three = 3
            all = 11
        return {"F": F}
    if which == "F":
        class F(enum.IntFlag):
            one = 1
            two = 2
            eight = 8
        return {"F": F}


def _domain(ctx, dom, tier, kwvals):
    dom = T(dom)
    if dom[0] == "none":
        return None
    if dom[0] == "optionalv":
        if ctx.fork(ctx.bool("v.none")):
            return None
        return domain(ctx, dom[1], "v", tier, wide=True)
    if dom[0] == "arraykw":
        n = ctx.concretize(kwvals[dom[1]])
        k = ctx.choice("v.len", [0, 1, 2, 3])
        return [domain(ctx, dom[2], "v[%d]" % i, tier, wide=True) for i in range(k)]
    return domain(ctx, dom, "v", tier, wide=True)


def _chain(ctx, C, p):
    """operator spellings build NEW constructs: extending `header` into `packet` must leave `header` what it was"""
    ns = {}
    names = ("'a'/Byte", "'b'/Int16sl", "'c'/VarInt") if p["oper"] == "+" else ("Byte", "Int16sl", "VarInt")
    header = mk(C, "%s %s %s" % (names[0], p["oper"], names[1]))
    fresh = mk(C, "%s(%s, %s)" % (p["ctor"], names[0], names[1]))
    packet = header + mk(C, names[2]) if p["oper"] == "+" else header >> mk(C, names[2])
    full = mk(C, "%s(%s)" % (p["ctor"], ", ".join(names)))
    n = ctx.choice("len", [3, 4, 5])
    data = ctx.bytes("data", n)
    for what, x, y in (("header", header, fresh), ("packet", packet, full)):
        s1, s2 = ctx.stream(data), ctx.stream(data)
        r1, r2 = api.outcome(x.parse_stream, s1), api.outcome(y.parse_stream, s2)
        ctx.check("%s accepts exactly what its constructor form accepts" % what, r1.ok == r2.ok)
        if r1.ok:
            ctx.check("%s parses to the value its constructor form gives" % what, ctx.eq(r1.value, r2.value) and s1.tell() == s2.tell())
            b1, b2 = api.outcome(x.build, r1.value), api.outcome(y.build, r2.value)
            ctx.check("%s builds what its constructor form builds" % what, b1.ok == b2.ok and (not b1.ok or ctx.fork(ctx.eq(b1.value, b2.value))))
    ctx.check("sizeof of header is that of its constructor form", api.outcome(header.sizeof).ok == api.outcome(fresh.sizeof).ok and header.sizeof() == fresh.sizeof())
    return "ok"


def _embed(ctx, C, L, R, kw):
    """the two sides are interchangeable as members of a Struct too: same behaviour when the member is omitted or None,
    same sizeof, same flagbuildnone"""
    ctx.check("both sides agree on whether they build from None (flagbuildnone)", bool(L.flagbuildnone) == bool(R.flagbuildnone))
    s1, s2 = api.outcome(L.sizeof, **kw), api.outcome(R.sizeof, **kw)
    ctx.check("sizeof: both answer or both fail", s1.ok == s2.ok)
    if s1.ok:
        ctx.check("sizeof: equal", ctx.eq(s1.value, s2.value))
    t = ctx.int("t", 0, 255)
    for what, v in (("omitted", dict(t=t)), ("None", dict(m=None, t=t))):
        SL, SR = C.Struct("m" / L, "t" / C.Byte), C.Struct("m" / R, "t" / C.Byte)
        r1, r2 = api.outcome(SL.build, dict(v), **kw), api.outcome(SR.build, dict(v), **kw)
        ctx.check("as a Struct member with the value %s: both build or both refuse" % what, r1.ok == r2.ok)
        if r1.ok:
            ctx.check("as a Struct member with the value %s: identical bytes" % what, ctx.eq(r1.value, r2.value))
    return "ok"


def harness(ctx, C, p):
    if p["op"] == "chain":
        return _chain(ctx, C, p)
    extra = _extra(C, p.get("extra"))
    if p.get("extra") == "E" and "Int16sb" in p["lhs"]:
        import enum
        extra = {"E": enum.IntEnum("E", dict(one=1, two=2))}
    L, R = mk(C, p["lhs"], extra), mk(C, p["rhs"], extra)
    kw = {}
    for k in p["kw"]:
        kw[k] = ctx.int("kw." + k, -1, 3)
    if p["op"] == "embed":
        return _embed(ctx, C, L, R, kw)
    if p["op"] == "parse":
        if p["kw"]:
            for side in (L, R):          # both sides were used before, on an input that is too short (same objects, same context)
                api.outcome(side.parse, b"\xe1", **{k: 1 for k in p["kw"]})
        data = ctx.bytes("data", p["n"])
        s1, s2 = ctx.stream(data), ctx.stream(data)
        r1, r2 = api.outcome(L.parse_stream, s1, **kw), api.outcome(R.parse_stream, s2, **kw)
        ctx.check("both sides accept or both reject the same bytes", r1.ok == r2.ok)
        if r1.ok:
            ctx.observe("value", r1.value)
            ctx.check("both sides parse to equal values", ctx.eq(r1.value, r2.value))
            ctx.check("both sides consume the same number of bytes", s1.tell() == s2.tell())
            return "accept"
        return "reject"
    v = _domain(ctx, p["dom"], p["tier"], kw)
    ctx.observe("v", v)
    r1, r2 = api.outcome(L.build, v, **kw), api.outcome(R.build, v, **kw)
    ctx.check("both sides accept or both reject the same value", r1.ok == r2.ok)
    if r1.ok:
        ctx.observe("bytes", r1.value)
        ctx.check("both sides build identical bytes", ctx.eq(r1.value, r2.value))
        return "accept"
    return "reject"
