"""C16 -- lazy parsing is observationally equal to eager parsing under any access order.

Programs: member lists mixing fixed-size, context-sized (keyword), length-prefixed and unsizable
(VarInt) members, no cross references (documented restriction); LazyArray over the same element
kinds; Lazy(x) fields inside an eager Struct (enumerated).  Symbolic: all input bytes AND the access
history -- each step's member index is a solver variable forked by the engine, so every order with
repetition of the given length is covered.  Oracle: the eager Struct / Array parse of the same bytes.
Obligations: each accessed value equals the eager value; the stream ends where the eager parse ends;
accessing members does not move the stream; a surrounding parse sees the same position; building
from the lazy result equals building from the eager result.
"""
import itertools
import random
from symx import api
from .common import mk

PROPERTY = "C16"
LEVEL = "model_checking"
INSTANCE_BUDGET_S = {"quick": 90, "thorough": 600}
EXHAUSTIVE = {"quick": False, "thorough": False}
BOUNDS = {
    "quick": dict(members="seeded 48 lists of 2..3 members over 7 member kinds (named), histories of length 3 (every order with repetition; 2 when the list has two VarInts)", stream="6 symbolic bytes",
                  access="by name, by index, by attribute, iteration (keys/values/items), slicing for LazyArray"),
    "thorough": dict(members="400 seeded lists of 2..3 members over 9 kinds (histories of length 4), 120 lists of 4 (length 3), 60 lists of 5..6 (length 2)", stream="10 symbolic bytes (8 for >= 4 members)", access="as quick"),
}
OUTSIDE = ["Lazy(x) over a field whose size cannot be determined without parsing it (VarInt): raises SizeofError by design",
           "cross references between members of a LazyStruct (documented restriction)", "members whose size depends on _index", "negative indices into LazyListContainer",
           "list methods of a LazyArray result beyond indexing, slicing, iteration, len, ==, != and `in` (index, count, reversed, +, copy operate on the empty underlying list)"]
ASSUMPTIONS = ["oracle: the eager Struct/Array of the same library"]

MEMBERS = {
    "u8": "Byte", "u16": "Int16ub", "kw": "Bytes(this._params.n)", "pre": "Prefixed(Byte, GreedyBytes)", "var": "VarInt", "prefix3": "Prefixed(Byte, Bytes(2))",
    "parr": "PrefixedArray(Byte, Byte)", "pad": "Padded(3, Byte)", "cst": "Const(b'\\x00')",
    "parrvar": "PrefixedArray(Byte, VarInt)",      # measurable only by parsing, and measuring it reads the count first
    "dflt": "Default(Byte, 7)", "opt": "Optional(Int16ub)",      # members that build from None: the parsed value must still be what is built
    "acst": "Const(b'\\x00')", "apad": "Padding(1)",            # ANONYMOUS members (no name): they shift indexes but not names
    "arrpre": "Array(2, Prefixed(Byte, GreedyBytes))", "alpre": "Aligned(2, Prefixed(Byte, GreedyBytes))",
    "nt": "NullTerminated(GreedyBytes)", "ntic": "NullTerminated(GreedyBytes, include=True, consume=False)", "prevar": "Prefixed(VarInt, GreedyBytes)",      # wrappers whose size is not their inner element's
}
ANON = ("acst", "apad")
QUICK_KINDS = ["u8", "u16", "kw", "pre", "var", "prefix3", "parr", "parrvar", "dflt", "opt", "acst", "arrpre"]
HAND_LISTS = [["u8", "ntic", "u8"], ["ntic", "u16"], ["prevar", "u8"], ["u8", "prevar", "var"], ["nt", "u8"], ["u8", "nt", "ntic", "u8"]]


def instances(tier, seed):
    rnd = random.Random(seed * 17 + 3)
    out = []
    kinds = QUICK_KINDS if tier == "quick" else sorted(MEMBERS)
    lists = []
    for n in ((2, 3) if tier == "quick" else (2, 3, 4)):
        for combo in itertools.product(kinds, repeat=n):
            lists.append(list(combo))
    if tier == "quick":
        rnd.shuffle(lists)
        lists = sorted(lists[:48])
    else:
        small = [l for l in lists if len(l) <= 3]
        four = [l for l in lists if len(l) == 4]
        rnd.shuffle(small)
        rnd.shuffle(four)
        lists = sorted(small[:400]) + sorted(four[:120])
        for _ in range(60):
            lists.append([rnd.choice(kinds) for _ in range(rnd.choice([5, 6]))])
    H = 3 if tier == "quick" else 4

    def heavy(ml):
        return any(k in ("parrvar", "arrpre", "alpre") for k in ml) or sum(ml.count(k) for k in ("var", "pre", "parr", "opt")) >= 2

    def hist(ml):
        if ml.count("var") >= 2 or (tier != "quick" and heavy(ml)):
            return 2
        if tier == "quick":
            return 3
        return {2: 4, 3: 4, 4: 3}.get(len(ml), 2)          # |members|^H access histories per parse path
    MINSZ = {"nt": 1, "ntic": 1, "prevar": 1, "u8": 1, "u16": 2, "kw": 0, "pre": 1, "var": 1, "prefix3": 3, "parr": 1, "pad": 3, "cst": 1, "parrvar": 1, "dflt": 1, "opt": 2, "acst": 1, "apad": 1, "arrpre": 2, "alpre": 2}

    def need(ml):
        return sum(MINSZ[k] for k in ml)
    lists = [ml for ml in lists if need(ml) <= 12]          # the shortest accepted input must fit the symbolic stream
    lists = lists + [ml for ml in HAND_LISTS if ml not in lists]
    for ml in lists:
        n = (6 if ml.count("prefix3") < 2 else 8) if tier == "quick" else (10 if len(ml) <= 3 and not heavy(ml) else 8)
        out.append(dict(name="lazystruct %s" % ",".join(ml), params=dict(kind="struct", members=ml, H=hist(ml), n=max(n, min(14, need(ml) + 2))),
                        expect=[] if "ntic" in ml[:-1] and tier != "quick" else ["ok"]))
    for k in kinds:
        out.append(dict(name="lazyarray 3 x %s" % k, params=dict(kind="array", elem=k, count=3 if k not in ("var", "prefix3", "pre", "parr") else 2, H=H if k != "var" else 2, n=(6 if k != "prefix3" else 8) if tier == "quick" else 10), expect=["ok"]))
        if k not in ("var", "parrvar", "opt", "arrpre", "alpre", "nt", "ntic"):          # Lazy needs a sizable field (VarInt: SizeofError at parse time, by design)
            out.append(dict(name="lazy field %s" % k, params=dict(kind="lazy", elem=k, n=8), expect=["ok"]))
    if "prevar" not in kinds:
        out.append(dict(name="lazy field prevar", params=dict(kind="lazy", elem="prevar", n=8), expect=["ok"]))
        out.append(dict(name="lazyarray 2 x prevar", params=dict(kind="array", elem="prevar", count=2, H=2, n=6), expect=["ok"]))
    for ml in lists[:12] + HAND_LISTS[:3]:
        out.append(dict(name="lazy struct inside a region at a non-zero offset: %s" % ",".join(ml), params=dict(kind="region", members=ml, n=8 if tier == "quick" else 10)))
        out.append(dict(name="surrounding parse sees the same position: %s" % ",".join(ml), params=dict(kind="surround", members=ml, n=8)))
        out.append(dict(name="views %s" % ",".join(ml), params=dict(kind="views", members=ml, n=8)))
    return out


def _struct_src(cls, ml):
    return "%s(%s)" % (cls, ", ".join(MEMBERS[k] if k in ANON else "'m%d'/%s" % (i, MEMBERS[k]) for i, k in enumerate(ml)))


def harness(ctx, C, p):
    kind = p["kind"]
    data = ctx.bytes("data", p["n"])
    kwn = ctx.int("kw.n", 0, 2)
    if kind == "struct":
        ml = p["members"]
        eager, lazy = mk(C, _struct_src("Struct", ml)), mk(C, _struct_src("LazyStruct", ml))
        # the same LazyStruct object has parsed another message before, under another context size
        api.outcome(lazy.parse, bytes((i * 29 + 1) & 0x7F for i in range(p["n"] + 4)), n=2)
        api.outcome(lazy.parse, bytes(p["n"]), n=1)
        se, sl = ctx.stream(data), ctx.stream(data)
        re_, rl = api.outcome(eager.parse_stream, se, n=kwn), api.outcome(lazy.parse_stream, sl, n=kwn)
        if not re_.ok:
            return "eager-reject"        # nothing is claimed when the eager parse rejects
        ctx.check("lazy parse accepts what eager parse accepts", rl.ok)
        ctx.check("lazy parse leaves the stream where eager parse does", sl.tell() == se.tell())
        end = se.tell()
        obj = rl.value
        hist = []
        for step in range(p["H"]):
            i = ctx.concretize(ctx.int("access%d" % step, 0, len(ml) - 1))
            how = (step + i) % 3
            hist.append(i)
            if ml[i] in ANON:
                v = api.outcome(lambda: obj[i])          # an anonymous member is reachable by position only
                ctx.check("access #%d of anonymous member %d succeeds" % (step, i), v.ok)
                ctx.check("an anonymous member's value is what it parses to (history %s)" % hist, v.value == (b"\x00" if ml[i] == "acst" else None))
                ctx.check("accessing a lazy member does not move the stream (history %s)" % hist, sl.tell() == end)
                continue
            if how == 0:
                v = api.outcome(lambda: obj["m%d" % i])
            elif how == 1:
                v = api.outcome(lambda: obj[i])
            else:
                v = api.outcome(lambda: getattr(obj, "m%d" % i))
            ctx.check("access #%d of member %d succeeds" % (step, i), v.ok)
            ctx.check("accessed value equals the eager value (history %s)" % hist, ctx.eq(v.value, re_.value["m%d" % i]))
            ctx.check("accessing a lazy member does not move the stream (history %s)" % hist, sl.tell() == end)
        be = api.outcome(eager.build, re_.value, n=kwn)
        bl = api.outcome(lazy.build, obj, n=kwn)
        ctx.check("building from the lazy result equals building from the eager result", be.ok == bl.ok and (not be.ok or ctx.fork(ctx.eq(be.value, bl.value))))
        return "ok"
    if kind == "array":
        el = MEMBERS[p["elem"]]
        eager, lazy = mk(C, "Array(%d, %s)" % (p["count"], el)), mk(C, "LazyArray(%d, %s)" % (p["count"], el))
        se, sl = ctx.stream(data), ctx.stream(data)
        re_, rl = api.outcome(eager.parse_stream, se, n=kwn), api.outcome(lazy.parse_stream, sl, n=kwn)
        if not re_.ok:
            return "eager-reject"
        ctx.check("lazy parse accepts what eager parse accepts", rl.ok)
        ctx.check("lazy parse leaves the stream where eager parse does", sl.tell() == se.tell())
        end = se.tell()
        obj = rl.value
        for step in range(p["H"]):
            i = ctx.concretize(ctx.int("access%d" % step, 0, p["count"] - 1))
            v = api.outcome(lambda: obj[i])
            ctx.check("element access succeeds", v.ok)
            ctx.check("accessed element equals the eager element", ctx.eq(v.value, re_.value[i]))
            ctx.check("accessing an element does not move the stream", sl.tell() == end)
        ctx.check("len", len(obj) == p["count"])
        sl_ = api.outcome(lambda: obj[1:])
        ctx.check("slicing returns the eager slice", sl_.ok and ctx.fork(ctx.eq(list(sl_.value), list(re_.value[1:]))))
        it = api.outcome(lambda: list(iter(obj)))
        ctx.check("iteration returns the eager elements", it.ok and ctx.fork(ctx.eq(it.value, list(re_.value))))
        ctx.check("stream still in place after slicing and iteration", sl.tell() == end)
        e1, e3 = api.outcome(lambda: obj == list(re_.value)), api.outcome(lambda: obj != list(re_.value))
        ctx.check("the lazy list compares equal to the eager elements and != agrees with ==", e1.ok and e3.ok and bool(ctx.fork(e1.value)) and not bool(ctx.fork(e3.value)))
        m = api.outcome(lambda: re_.value[0] in obj)
        ctx.check("membership test sees the elements", m.ok and bool(ctx.fork(m.value)))
        be, bl = api.outcome(eager.build, re_.value, n=kwn), api.outcome(lazy.build, obj, n=kwn)
        ctx.check("building from the lazy result equals building from the eager result", be.ok == bl.ok and (not be.ok or ctx.fork(ctx.eq(be.value, bl.value))))
        return "ok"
    if kind == "lazy":
        el = MEMBERS[p["elem"]]
        eager = mk(C, "Struct('a'/Byte, 'x'/%s, 'b'/Byte)" % el)
        lazy = mk(C, "Struct('a'/Byte, 'x'/Lazy(%s), 'b'/Byte)" % el)
        se, sl = ctx.stream(data), ctx.stream(data)
        re_, rl = api.outcome(eager.parse_stream, se, n=kwn), api.outcome(lazy.parse_stream, sl, n=kwn)
        if not re_.ok:
            return "eager-reject"
        ctx.check("a Struct with a Lazy member accepts what the eager Struct accepts", rl.ok)
        ctx.check("and ends at the same position", sl.tell() == se.tell())
        ctx.check("members after the Lazy field are the eager ones", api.and_terms([ctx.eq(rl.value.a, re_.value.a), ctx.eq(rl.value.b, re_.value.b)]))
        end = se.tell()
        for rep in range(2):
            v = api.outcome(rl.value.x)
            ctx.check("the thunk returns the eager value (call %d)" % rep, v.ok and ctx.fork(ctx.eq(v.value, re_.value.x)))
            ctx.check("calling the thunk does not move the stream", sl.tell() == end)
        be, bl = api.outcome(eager.build, re_.value, n=kwn), api.outcome(lazy.build, rl.value, n=kwn)
        ctx.check("building from the lazy result equals building from the eager result", be.ok == bl.ok and (not be.ok or ctx.fork(ctx.eq(be.value, bl.value))))
        return "ok"
    if kind == "surround":
        ml = p["members"]
        inner_e, inner_l = _struct_src("Struct", ml), _struct_src("LazyStruct", ml)
        eager = mk(C, "Struct('l'/%s, 'next'/Byte)" % inner_e)
        first = min(i for i in range(len(ml)) if ml[i] not in ANON) if any(k not in ANON for k in ml) else 0
        lazy = mk(C, "Struct('l'/%s, 'probe'/Computed(lambda ctx: ctx.l[%d]), 'next'/Byte)" % (inner_l, first))
        re_, rl = api.outcome(eager.parse, data, n=kwn), api.outcome(lazy.parse, data, n=kwn)
        if not re_.ok:
            return "eager-reject"
        ctx.check("surrounding parse with a lazy access in the middle succeeds", rl.ok)
        ctx.check("accessing a lazy member does not disturb the position seen by the surrounding parse", ctx.eq(rl.value.next, re_.value.next))
        if any(k not in ANON for k in ml):
            ctx.check("the accessed value is the eager one", ctx.eq(rl.value.probe, re_.value.l["m%d" % first]))
        return "ok"
    if kind == "region":
        # the lazy struct lives in a Prefixed region that starts 3 bytes into the stream: everything is as with the eager struct there
        ml = p["members"]
        eager = mk(C, "Struct('h'/Bytes(2), 'p'/Prefixed(Byte, %s), 't'/Byte)" % _struct_src("Struct", ml))
        lazy = mk(C, "Struct('h'/Bytes(2), 'p'/Prefixed(Byte, %s), 't'/Byte)" % _struct_src("LazyStruct", ml))
        se, sl = ctx.stream(data), ctx.stream(data)
        re_, rl = api.outcome(eager.parse_stream, se, n=kwn), api.outcome(lazy.parse_stream, sl, n=kwn)
        if not re_.ok:
            return "eager-reject"
        ctx.check("a lazy struct inside a region accepts what the eager struct accepts there", rl.ok)
        ctx.check("the outer stream ends at the same position and the trailer is the same", sl.tell() == se.tell() and ctx.fork(ctx.eq(rl.value.t, re_.value.t)))
        for i, k in enumerate(ml):
            if k in ANON:
                continue
            v = api.outcome(lambda: rl.value.p["m%d" % i])
            ctx.check("member %d read lazily inside the region equals the eager value" % i, v.ok and ctx.fork(ctx.eq(v.value, re_.value.p["m%d" % i])))
        return "ok"
    if kind == "views":
        ml = p["members"]
        eager, lazy = mk(C, _struct_src("Struct", ml)), mk(C, _struct_src("LazyStruct", ml))
        re_, rl = api.outcome(eager.parse, data, n=kwn), api.outcome(lazy.parse, data, n=kwn)
        if not re_.ok:
            return "eager-reject"
        ctx.check("lazy parse accepts", rl.ok)
        obj = rl.value
        names = ["m%d" % i for i in range(len(ml)) if ml[i] not in ANON]
        ctx.check("keys in declaration order", list(obj.keys()) == names and list(iter(obj)) == names)
        ctx.check("len() is the number of (named) entries that keys() lists", len(obj) == len(names))
        vals = api.outcome(lambda: list(obj.values()))
        ctx.check("values() are the eager values in order", vals.ok and ctx.fork(ctx.eq(vals.value, [re_.value[n] for n in names])))
        items = api.outcome(lambda: list(obj.items()))
        ctx.check("items() pairs", items.ok and [k for k, v in items.value] == names)
        e1, e2, e3 = api.outcome(lambda: obj == re_.value), api.outcome(lambda: re_.value == obj), api.outcome(lambda: obj != re_.value)
        ctx.check("the lazy result compares equal to the eager container, in both directions", e1.ok and e2.ok and bool(ctx.fork(e1.value)) and bool(ctx.fork(e2.value)))
        ctx.check("and != agrees with ==", e3.ok and not bool(ctx.fork(e3.value)))
        ctx.check("membership tests see the named members", all(n in obj for n in names) and ("no_such_member" not in obj))
        return "ok"
    raise ValueError(kind)
