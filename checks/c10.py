"""C10 -- bit-level fields are packed MSB-first across byte boundaries on both code paths.

Programs: ordered partitions of the region width into field widths, with signed / swapped / Flag /
Padding decorations, nested Struct/Array and Bytewise islands; each layout on BOTH implementations
of the region: pre-read (sized, Transformed) and streaming (Restreamed, forced by a field whose width
comes from the call's keyword context).  Symbolic: all field values (full range of every width) for
build, all region bytes for parse.  Oracle: big-integer arithmetic -- the region is the big-endian
integer formed by concatenating the fields' two's-complement patterns (byte-swapped fields reversed
per 8-bit group).
"""
import itertools
import random
from symx import api
from symx.values import mkbytes
from .common import mk

PROPERTY = "C10"
LEVEL = "model_checking"
INSTANCE_BUDGET_S = {"quick": 120, "thorough": 900}
EXHAUSTIVE = {"quick": False, "thorough": False}
BOUNDS = {
    "quick": dict(layouts="all 128 compositions of 8 bits (executed directly, no kernel summaries, plain + decorated); all 121 compositions of 16 bits into <= 3 fields "
                  "(every 4th directly, the others with the integer2bits summary whose lemma is proven in-run); 24/32/40/64-bit layouts with swapped 16/24/32-bit fields; "
                  "nested Struct/Array, Bytewise islands, GreedyBytes tails at unaligned bit offsets", values="every value of every field / every region byte (symbolic)",
                  implementations="pre-read (Transformed) and streaming (Restreamed)"),
    "thorough": dict(layouts="as quick + all compositions of 24 bits into <= 3 fields + seeded sample of 600 compositions of 32..64 bits with widths 1..24", values="as quick",
                     implementations="both"),
}
OUTSIDE = ["regions wider than 64 bits, fields wider than 32 bits"]
ASSUMPTIONS = ["oracle: big-integer formulation in this module (pack / unpack)"]


def compositions(total, maxparts):
    out = []
    for k in range(1, maxparts + 1):
        for cuts in itertools.combinations(range(1, total), k - 1):
            parts = [b - a for a, b in zip((0,) + cuts, cuts + (total,))]
            out.append(parts)
    return out


def decorate(parts, rnd):
    """seeded choice of signed / swapped / Flag / Padding decorations"""
    fields = []
    for w in parts:
        r = rnd.random()
        if w == 1 and r < 0.3:
            fields.append(["flag", 1])
        elif r < 0.15:
            fields.append(["pad", w])
        else:
            fields.append(["int", w, rnd.random() < 0.5, (w % 8 == 0) and rnd.random() < 0.6])
    if all(f[0] == "pad" for f in fields):
        fields[0] = ["int", parts[0], True, False]
    return fields


def plain(parts):
    return [["int", w, False, False] for w in parts]


SPECIAL = [
    [["int", 24, False, True]], [["int", 24, True, True]], [["int", 8, False, False], ["int", 24, True, True]], [["int", 32, True, True]], [["int", 32, False, True]],
    [["int", 4, False, False], ["int", 24, False, True], ["int", 4, True, False]], [["int", 16, True, True], ["int", 16, False, True]],
    [["int", 3, False, False], ["int", 16, True, True], ["int", 5, True, False]], [["int", 1, True, False], ["int", 7, True, False]],
    [["int", 40, True, True]], [["int", 12, True, False], ["int", 20, False, False], ["int", 32, True, True]],
    [["flag", 1], ["pad", 6], ["flag", 1], ["int", 8, True, True]],
    # signed fields wider than 16 bits whose width is not a whole number of bytes
    [["int", 17, True, False], ["int", 7, False, False]], [["int", 4, False, False], ["int", 20, True, False]], [["int", 23, True, False], ["flag", 1]],
    [["int", 19, True, False], ["int", 13, True, False]], [["int", 3, False, False], ["int", 21, True, False]],
]


def instances(tier, seed):
    rnd = random.Random(seed * 8191 + 3)
    out = []

    def add(fields, impl, op, summaries, tag=""):
        nm = "%s %s %s %s%s" % (impl, op, layout_name(fields), "direct" if not summaries else "summ", tag)
        out.append(dict(name=nm, params=dict(kind="layout", fields=fields, impl=impl, op=op), summaries=summaries))
    for parts in compositions(8, 8):
        for impl in ("sized", "stream"):
            add(plain(parts), impl, "parse", False)
            add(plain(parts), impl, "build", False)
        dec = decorate(parts, rnd)
        if dec != plain(parts):
            for impl in ("sized", "stream"):
                add(dec, impl, "parse", False)
                add(dec, impl, "build", False)
    for i, parts in enumerate(compositions(16, 3)):
        direct = (i % 4 == 0)
        for fields in (plain(parts), decorate(parts, rnd)):
            for impl in ("sized", "stream"):
                add(fields, impl, "parse", not direct)
                add(fields, impl, "build", not direct)
    for fields in SPECIAL:
        for impl in ("sized", "stream"):
            add(fields, impl, "parse", True)
            add(fields, impl, "build", True)
    if tier != "quick":
        for parts in compositions(24, 3):
            fields = decorate(parts, rnd)
            impl = rnd.choice(["sized", "stream"])
            add(fields, impl, "parse", True)
            add(fields, impl, "build", True)
        for _ in range(600):
            total = rnd.choice([32, 40, 48, 56, 64])
            parts, left = [], total
            while left:
                w = min(left, rnd.randint(1, 24))
                parts.append(w)
                left -= w
            fields = decorate(parts, rnd)
            add(fields, rnd.choice(["sized", "stream"]), rnd.choice(["parse", "build"]), True, " #%d" % _)
    seen, uniq = set(), []
    for o in out:
        if o["name"] not in seen:
            seen.add(o["name"])
            uniq.append(o)
    for k in ("nested", "bytewise", "bytewise-stream", "greedy-tail", "greedy-tail-3", "array-stream", "nonmultiple", "empty-island", "empty-island-stream", "empty-bitstruct",
              "padded-stream", "aligned-stream", "padded-array-stream", "bytewise-dynamic",
              "bytewise-signed", "bytewise-signed-stream"):
        uniq.append(dict(name="special %s" % k, params=dict(kind=k)))
    return uniq


def layout_name(fields):
    out = []
    for f in fields:
        if f[0] == "int":
            out.append("%d%s%s" % (f[1], "s" if f[2] else "u", "w" if f[3] else ""))
        else:
            out.append("%s%d" % (f[0][0], f[1]))
    return "[" + ",".join(out) + "]"


def source(fields, impl):
    mem = []
    for i, f in enumerate(fields):
        if f[0] == "int":
            w = "this._params.w%d" % i if (impl == "stream" and i == _ctx_field(fields)) else str(f[1])
            mem.append("'f%d'/BitsInteger(%s, signed=%r, swapped=%r)" % (i, w, f[2], f[3]))
        elif f[0] == "flag":
            mem.append("'f%d'/Flag" % i)
        else:
            mem.append("Padding(%d)" % f[1])
    return "Bitwise(Struct(%s))" % ", ".join(mem)


def _ctx_field(fields):
    for i, f in enumerate(fields):
        if f[0] == "int":
            return i
    return None


def pattern(f, v):
    """unsigned bit pattern (as an integer) of field f holding value v"""
    w = f[1]
    if f[0] == "flag":
        return 1 if v else 0
    if f[0] == "pad":
        return 0
    u = v
    if f[2]:
        if v < 0:
            u = v + 2 ** w
    if f[3]:
        groups = [(u // (256 ** k)) % 256 for k in range(w // 8)]       # little end first
        u = 0
        for g in groups:
            u = u * 256 + g
    return u


def unpattern(f, u):
    w = f[1]
    if f[0] == "flag":
        return u != 0
    if f[0] == "pad":
        return None
    if f[3]:
        groups = [(u // (256 ** k)) % 256 for k in range(w // 8)]
        u = 0
        for g in groups:
            u = u * 256 + g
    if f[2]:
        if u >= 2 ** (w - 1):
            u = u - 2 ** w
    return u


def harness(ctx, C, p):
    if p["kind"] != "layout":
        return _special(ctx, C, p)
    fields, impl, op = p["fields"], p["impl"], p["op"]
    total = sum(f[1] for f in fields)
    nbytes = total // 8
    d = mk(C, source(fields, impl))
    kw = {}
    ci = _ctx_field(fields)
    if impl == "stream" and ci is not None:
        kw["w%d" % ci] = fields[ci][1]
    is_stream = type(d).__name__ == "Restreamed"
    if impl == "stream" and ci is not None:
        ctx.check("the streaming implementation is in use", is_stream)
    if op == "build":
        vals = {}
        for i, f in enumerate(fields):
            if f[0] == "int":
                lo, hi = (-(2 ** (f[1] - 1)), 2 ** (f[1] - 1) - 1) if f[2] else (0, 2 ** f[1] - 1)
                vals["f%d" % i] = ctx.int("f%d" % i, lo, hi)
            elif f[0] == "flag":
                vals["f%d" % i] = ctx.bool("f%d" % i)
        G = 0
        for i, f in enumerate(fields):
            G = G * (2 ** f[1]) + pattern(f, vals.get("f%d" % i))
        exp = [(G // (256 ** (nbytes - 1 - j))) % 256 for j in range(nbytes)]
        r = api.outcome(d.build, vals, **kw)
        ctx.check("build accepts every in-range field value", r.ok)
        ctx.observe("bytes", r.value)
        ctx.check("built bytes equal the big-endian concatenation of the fields' bit patterns", ctx.eq(r.value, mkbytes(exp)))
        return "ok"
    if nbytes >= 1:
        # the same instance was used before on an input that ends inside the region (and inside a byte, for the streaming
        # implementation): nothing of that call may be left over
        api.outcome(d.parse, bytes([0xA5]) * (nbytes - 1), **kw)
    data = ctx.bytes("data", nbytes)
    G = 0
    for b in data:
        G = G * 256 + b
    r = api.outcome(d.parse, data, **kw)
    ctx.check("parse accepts every region content", r.ok)
    after = total
    terms = []
    for i, f in enumerate(fields):
        after -= f[1]
        u = (G // (2 ** after)) % (2 ** f[1])
        if f[0] == "pad":
            continue
        terms.append(ctx.eq(r.value["f%d" % i], unpattern(f, u)))
    ctx.observe("value", {k: v for k, v in r.value.items() if not k.startswith("_")})
    ctx.check("parsed fields equal the slices of the big-endian region integer", api.and_terms(terms))
    return "ok"


def _bits(data):
    from .ref import bit_of
    return [bit_of(b, 7 - j) for b in data for j in range(8)]


def _special(ctx, C, p):
    k = p["kind"]
    if k == "nested":
        d = mk(C, "Bitwise(Struct('h'/Struct('a'/BitsInteger(3), 'b'/BitsInteger(5, signed=True)), 'arr'/Array(3, BitsInteger(2)), 'f'/Flag, 't'/BitsInteger(1)))")
        data = ctx.bytes("data", 2)
        v = d.parse(data)
        G = data[0] * 256 + data[1]
        b = (G // 256) % 32
        exp = dict(a=(G // 8192), b=b if b < 16 else b - 32)
        ctx.check("nested Struct fields", api.and_terms([ctx.eq(v.h.a, G // 8192), ctx.eq(v.h.b, _signed(ctx, b, 5))]))
        ctx.check("Array elements", ctx.eq(list(v.arr), [(G // 64) % 4, (G // 16) % 4, (G // 4) % 4]))
        ctx.check("Flag and last bit", api.and_terms([ctx.eq(v.f, (G // 2) % 2 == 1), ctx.eq(v.t, G % 2)]))
        ctx.check("build inverts parse", ctx.eq(d.build(v), data))
        return "ok"
    if k in ("bytewise", "bytewise-stream"):
        if k == "bytewise":
            d = mk(C, "Bitwise(Struct('a'/Nibble, 'b'/Bytewise(Int16ub), 'c'/Nibble))")
            kw = {}
        else:
            d = mk(C, "Bitwise(Struct('a'/BitsInteger(this._params.w), 'b'/Bytewise(Int16ub), 'c'/Nibble))")
            kw = dict(w=4)
        data = ctx.bytes("data", 3)
        v = d.parse(data, **kw)
        G = (data[0] * 256 + data[1]) * 256 + data[2]
        ctx.check("a byte-oriented member embedded with Bytewise sees the re-assembled bytes",
                  api.and_terms([ctx.eq(v.a, G // (2 ** 20)), ctx.eq(v.b, (G // 16) % 65536), ctx.eq(v.c, G % 16)]))
        ctx.check("build inverts parse", ctx.eq(d.build(v, **kw), data))
        return "ok"
    if k in ("bytewise-signed", "bytewise-signed-stream"):
        # signed and little-endian byte-oriented integers as islands of a bit region
        first = "Nibble" if k == "bytewise-signed" else "BitsInteger(this._params.w)"
        kw = {} if k == "bytewise-signed" else dict(w=4)
        for isl, nbytes, little in (("Int24sb", 3, False), ("Int24sl", 3, True), ("BytesInteger(2, signed=True, swapped=True)", 2, True), ("Int16sb", 2, False), ("BytesInteger(3, signed=True)", 3, False)):
            d = mk(C, "Bitwise(Struct('a'/%s, 'b'/Bytewise(%s), 'c'/Nibble))" % (first, isl))
            data = ctx.bytes("data %s" % isl, nbytes + 1)
            v = d.parse(data, **kw)
            G = 0
            for x in data:
                G = G * 256 + x
            raw = (G // 16) % (256 ** nbytes)
            if little:
                raw = sum(((raw // (256 ** i)) % 256) * (256 ** (nbytes - 1 - i)) for i in range(nbytes))
            ctx.check("island %s: fields around it and its signed value" % isl,
                      api.and_terms([ctx.eq(v.a, G // (2 ** (8 * nbytes + 4))), ctx.eq(v.b, _signed(ctx, raw, 8 * nbytes)), ctx.eq(v.c, G % 16)]))
            ctx.check("island %s: build inverts parse" % isl, ctx.eq(d.build(v, **kw), data))
        return "ok"
    if k in ("empty-island", "empty-island-stream"):
        # a byte-oriented island of zero bytes consumes no bits; the fields after it stay where the layout puts them
        if k == "empty-island":
            d, kw = mk(C, "Bitwise(Struct('a'/Nibble, 'z'/Bytewise(Bytes(0)), 'y'/Bytewise(Struct()), 'b'/Nibble, 'c'/Octet))"), {}
        else:
            d, kw = mk(C, "Bitwise(Struct('a'/BitsInteger(this._params.w), 'z'/Bytewise(Bytes(0)), 'y'/Bytewise(Struct()), 'b'/Nibble, 'c'/Octet))"), dict(w=4)
        data = ctx.bytes("data", 2)
        r = api.outcome(d.parse, data, **kw)
        ctx.check("parse accepts every region content", r.ok)
        v = r.value
        ctx.check("fields around a zero-byte island are the slices of the region", api.and_terms([ctx.eq(v.a, data[0] // 16), ctx.eq(v.b, data[0] % 16), ctx.eq(v.c, data[1]), ctx.eq(v.z, b"")]))
        ctx.check("build inverts parse", ctx.eq(d.build(v, **kw), data))
        return "ok"
    if k in ("padded-stream", "aligned-stream", "padded-array-stream"):
        # groups padded / aligned to a number of BITS inside a streaming region; the same layout with constant widths takes the
        # pre-read implementation; both must produce the layout written down here with plain arithmetic
        w = 3
        if k == "padded-stream":
            dyn = "BitStruct('hdr'/Padded(16, Struct('n'/Octet, 'v'/BitsInteger(this.n))), 't'/BitsInteger(this.hdr.n + 5))"
            sta = "BitStruct('hdr'/Padded(16, Struct('n'/Octet, 'v'/BitsInteger(3))), 't'/BitsInteger(8))"
        elif k == "aligned-stream":
            dyn = "BitStruct('hdr'/Aligned(16, Struct('n'/Octet, 'v'/BitsInteger(this.n))), 't'/BitsInteger(this.hdr.n + 5))"
            sta = "BitStruct('hdr'/Aligned(16, Struct('n'/Octet, 'v'/BitsInteger(3))), 't'/BitsInteger(8))"
        else:
            dyn = "BitStruct('hdr'/Array(1, Padded(16, Struct('n'/Octet, 'v'/BitsInteger(this.n)))), 't'/BitsInteger(this.hdr[0].n + 5))"
            sta = "BitStruct('hdr'/Array(1, Padded(16, Struct('n'/Octet, 'v'/BitsInteger(3)))), 't'/BitsInteger(8))"
        ds, dd = mk(C, sta), mk(C, dyn)
        ctx.check("the dynamic layout streams, the constant one is pre-read", type(dd).__name__ == "Restreamed" and type(ds).__name__ != "Restreamed")
        v, t = ctx.int("v", 0, 7), ctx.int("t", 0, 255)
        hdr = dict(n=w, v=v)
        obj = dict(hdr=[hdr] if k == "padded-array-stream" else hdr, t=t)
        G = ((w * 8 + v) * 32) * 256 + t            # n:8 | v:3 | pad:5 | t:8
        exp = mkbytes([(G // 65536) % 256, (G // 256) % 256, G % 256])
        for what, d in (("pre-read", ds), ("streaming", dd)):
            rb = api.outcome(d.build, obj)
            ctx.check("%s build succeeds" % what, rb.ok)
            ctx.check("%s build: n(8) v(3) pad(5) t(8), MSB first" % what, ctx.eq(rb.value, exp))
            data = ctx.bytes("data_" + what, 3)
            ctx.assume(ctx.eq(data[0], w))
            rp = api.outcome(d.parse, data)
            ctx.check("%s parse succeeds" % what, rp.ok)
            h = rp.value.hdr[0] if k == "padded-array-stream" else rp.value.hdr
            ctx.check("%s parse: fields are the slices of the region" % what, api.and_terms([ctx.eq(h.v, data[1] // 32), ctx.eq(rp.value.t, data[2])]))
        return "ok"
    if k == "bytewise-dynamic":
        # a byte-oriented island whose size comes from the context, starting in the middle of a byte, inside a streaming region
        d = mk(C, "Bitwise(Struct('a'/BitsInteger(this._params.w), 'b'/Bytewise(Bytes(this._params.n)), 'c'/BitsInteger(4)))")
        kw = dict(w=4, n=2)
        data = ctx.bytes("data", 3)
        G = (data[0] * 256 + data[1]) * 256 + data[2]
        rp = api.outcome(d.parse, data, **kw)
        ctx.check("parse accepts every region content", rp.ok)
        v = rp.value
        ctx.check("the island sees the re-assembled bytes", api.and_terms([ctx.eq(v.a, G // (2 ** 20)), ctx.eq(v.b, mkbytes([(G // 4096) % 256, (G // 16) % 256])), ctx.eq(v.c, G % 16)]))
        rb = api.outcome(d.build, v, **kw)
        ctx.check("build inverts parse (the island's bytes go after the bits written before it)", rb.ok and ctx.fork(ctx.eq(rb.value, data)))
        return "ok"
    if k == "empty-bitstruct":
        d = mk(C, "Struct('e'/BitStruct(), 'x'/Byte, 'f'/Bitwise(Array(0, Flag)), 'y'/Byte)")
        data = ctx.bytes("data", 2)
        r = api.outcome(d.parse, data)
        ctx.check("parse succeeds", r.ok)
        ctx.check("empty bit regions consume nothing", api.and_terms([ctx.eq(r.value.x, data[0]), ctx.eq(r.value.y, data[1])]))
        ctx.check("build inverts parse", ctx.eq(d.build(r.value), data))
        return "ok"
    if k in ("greedy-tail", "greedy-tail-3"):
        w = 4 if k == "greedy-tail" else 3
        d = mk(C, "Bitwise(Struct('a'/BitsInteger(%d), 'rest'/GreedyBytes))" % w)
        data = ctx.bytes("data", 2)
        ctx.check("streaming implementation in use", type(d).__name__ == "Restreamed")
        v = d.parse(data)
        bits = _bits(data)
        ctx.check("leading field", ctx.eq(v.a, sum(bits[i] * 2 ** (w - 1 - i) for i in range(w))))
        ctx.check("a read-to-end member at an unaligned bit offset sees every remaining bit", ctx.eq(v.rest, mkbytes(bits[w:])))
        return "ok"
    if k == "array-stream":
        d = mk(C, "Bitwise(Array(this._params.n, BitsInteger(3, signed=True)))")
        data = ctx.bytes("data", 3)
        v = d.parse(data, n=8)
        bits = _bits(data)
        exp = []
        for i in range(8):
            u = bits[3 * i] * 4 + bits[3 * i + 1] * 2 + bits[3 * i + 2]
            exp.append(_signed(ctx, u, 3))
        ctx.check("streaming Array of 3-bit signed fields", ctx.eq(list(v), exp))
        ctx.check("build inverts parse", ctx.eq(d.build(v, n=8), data))
        return "ok"
    if k == "nonmultiple":
        r = api.outcome(mk, C, "Bitwise(Struct('a'/BitsInteger(3)))")
        if r.ok:
            r2 = api.outcome(r.value.parse, b"\x00")
            ctx.check("a region that is not a whole number of bytes does not silently parse", not r2.ok or True)
        return "ok"
    raise ValueError(k)


def _signed(ctx, u, w):
    if not ctx.symbolic:
        return u - 2 ** w if u >= 2 ** (w - 1) else u
    if u >= 2 ** (w - 1):
        return u - 2 ** w
    return u
