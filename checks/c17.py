"""C17 -- constructs are stateless: results do not depend on call history or entry point.

Solver-addressable part (claimed):
 frame   one-step frame condition on EVERY symbolic path: a fingerprint of the object graph reachable from the
         construct (instance attributes, nested objects), from the classes of the package (class attributes such
         as lookup tables / caches) and from the package modules' globals is taken before a public call and
         compared after it -- parse / build / sizeof / compile, successful or failing.  No call writes shared
         state => by induction every interleaving of calls returns what each call returns in isolation.
 history r1 = f(x); g(y); r2 = f(x) with x, y symbolic and g on the same construct or on a construct sharing
         classes / sub-constructs  =>  r1 == r2 (catches state the fingerprint cannot see).
 entry   parse(bytes) vs parse(bytearray) vs parse_stream at a symbolic-content junk prefix offset;
         build vs build_stream at a non-zero offset.
Not explored by the solver (stated): thread schedules, parse_file/build_file, memoryview inputs.
"""
import types
from symx import api
from symx.values import mkbytes, SymInt, SymBool, SymBytes, ShByteArray
from . import common
from .common import src, mk, T, J, generate

PROPERTY = "C17"
LEVEL = "model_checking"
INSTANCE_BUDGET_S = {"quick": 90, "thorough": 600}
EXHAUSTIVE = {"quick": False, "thorough": False}
BOUNDS = {"quick": dict(pool="leaves + 1-level wrappings from the generator (sampled 1/4) + 50 curated constructs (transforms, bit streams, lazies, checksums, singletons)",
                        inputs="x, y: 3 symbolic bytes each; build values = parse results of symbolic bytes", offsets="junk prefix 0..2 bytes"),
          "thorough": dict(pool="all generated 1-level + 300 2-level + curated", inputs="5 bytes", offsets="0..2")}
OUTSIDE = ["real files (parse_file / build_file run against an in-memory file model in the symbolic run and against real temporary files in the concrete replay)", "thread schedules (the engine is single-threaded; only the consequence of the frame condition is claimed)", "memoryview inputs with symbolic contents (checked on the concrete witness of every entry-point instance only)",
           "documented per-call state: Rebuffered.stream2, Debugger"]
ASSUMPTIONS = ["fingerprint() walks __dict__ of reachable objects, class dictionaries of the package's classes and module globals; values that are proxies are compared by identity"]

CURATED = [
    "Aligned(4, Int16ub)", "Struct('a'/Byte, 'b'/Aligned(4, Byte), 'c'/Byte)", "AlignedStruct(4, 'a'/Byte, 'b'/Int16ub)", "Padded(4, VarInt)",
    "ProcessRotateLeft(4, 2, GreedyBytes)", "ProcessRotateLeft(12, 4, GreedyBytes)", "ProcessRotateLeft(3, 1, GreedyBytes)", "ProcessXor(7, GreedyBytes)", "ProcessXor(b'ab', GreedyBytes)",
    "Bitwise(GreedyRange(Octet))", "Bitwise(Struct('a'/Nibble, Check(this.a != 0), 'b'/Nibble, 'rest'/GreedyBytes))", "BitsSwapped(GreedyBytes)",
    "Bitwise(Struct('a'/BitsInteger(3), 'b'/BitsInteger(5)))", "Bytewise(Bitwise(Int16ub))" if False else "ByteSwapped(Int24ub)", "BitStruct('f'/Flag, Padding(7), 'n'/Octet)",
    "Bitwise(Struct('a'/BitsInteger(this._params.get('w', 4)), 'b'/BitsInteger(4), 'rest'/GreedyRange(Octet)))" if False else "Bitwise(Struct('a'/Nibble, 'b'/Nibble, 'r'/GreedyRange(Octet)))",
    "Struct('r'/RawCopy(Int16ub), 'c'/Checksum(Bytes(1), lambda d: d[:1], this.r.data))", "Enum(Byte, a=1, b=2)", "FlagsEnum(Byte, x=1, y=2)", "Mapping(Byte, {'k': 1})",
    "Lazy(Int16ub)", "LazyStruct('a'/Byte, 'b'/VarInt)", "LazyArray(2, Int16ub)", "Select(Int32ub, Int16ub, Byte)", "Optional(Int32ub)", "GreedyRange(Int16ub)", "RepeatUntil(obj_ == 0, Byte)",
    "Prefixed(VarInt, GreedyRange(Byte))", "PrefixedArray(Byte, Int16ub)", "FixedSized(4, GreedyBytes)", "NullTerminated(GreedyBytes)", "NullStripped(GreedyBytes)",
    "Union(0, 'a'/Int16ub, 'b'/Byte)", "Struct('k'/Byte, 's'/Switch(this.k, {1: Int16ub, 2: VarInt}, default=Byte))", "FocusedSeq('b', 'a'/Const(b'!'), 'b'/Int16ub)",
    "Struct('p'/Pointer(1, Byte), 'q'/Byte)", "Struct('a'/Peek(Int16ub), 'b'/Byte)", "Struct('t'/Tell, 'b'/Byte, 'u'/Tell)", "Hex(Int32ul)", "HexDump(Bytes(3))",
    "Byte", "Int32sl", "VarInt", "ZigZag", "Flag", "GreedyBytes", "Int24sb", "Struct('a'/Byte + 'b'/Byte)" if False else "Array(2, Struct('a'/Byte, 'b'/Flag))",
    "Struct('a'/Byte, 'd'/Bytes(this.a & 3), 'c'/Computed(this.a * 2))", "Struct('n'/Rebuild(Byte, len_(this.items)), 'items'/Array(this.n & 3, Byte))",
    "Const(b'MZ')", "Default(Byte, 7)", "OneOf(Byte, [1, 2])",
    # transforms with multi-byte constant keys / amounts on data whose length is not a multiple of the key; regions that hold RawCopy / Tell
    "ProcessXor(b'\\x01\\xfe\\x10', GreedyBytes)", "ProcessXor(b'\\x01\\xfe', Bytes(3))", "Struct('h'/Byte, 'x'/Prefixed(Byte, ProcessXor(b'ab\\x00', GreedyBytes)))",
    "NullTerminated(GreedyBytes, term=b'\\x00\\x00', require=False)", "Struct('s'/NullTerminated(GreedyBytes, term=b'\\xff\\xfe', require=False))", "FixedSized(5, NullTerminated(GreedyBytes, term=b'\\x00\\x00', require=False))",
    "FixedSized(6, RawCopy(Int16ub))", "Struct('h'/Bytes(3), 'f'/FixedSized(4, RawCopy(Struct('a'/Byte, 't'/Tell))))", "Prefixed(Byte, RawCopy(GreedyBytes))", "NullTerminated(RawCopy(GreedyBytes))",
    "Const(1, BytesInteger(this._params.get('w', 2)))" if False else "Struct('w'/Byte, 'c'/Const(1, BytesInteger((this.w & 1) + 1)))",
]
PAIRS = [
    ("ProcessRotateLeft(4, 2, GreedyBytes)", "ProcessRotateLeft(4, 4, GreedyBytes)"), ("ProcessRotateLeft(9, 4, GreedyBytes)", "ProcessRotateLeft(9, 2, GreedyBytes)"),
    ("ProcessXor(5, GreedyBytes)", "ProcessXor(6, GreedyBytes)"), ("Enum(Byte, a=1)", "Enum(Byte, a=2)"), ("FlagsEnum(Byte, a=1)", "FlagsEnum(Byte, a=2)"),
    ("Aligned(4, Byte)", "Aligned(2, Byte)"), ("BitsSwapped(GreedyBytes)", "BitsSwapped(Bytes(2))"), ("Bitwise(GreedyRange(Octet))", "Bitwise(GreedyRange(Nibble))"),
    ("Struct('a'/Byte)", "Struct('a'/Int16ub)"), ("Prefixed(Byte, GreedyBytes)", "Prefixed(Int16ub, GreedyBytes)"), ("Array(2, Byte)", "Array(3, Byte)"),
    ("Padded(3, Byte)", "Padded(4, Byte)"), ("Select(Int16ub, Byte)", "Select(Byte, Int16ub)"), ("Mapping(Byte, {'a': 1})", "Mapping(Byte, {'a': 2})"),
]


def _shifted(ctx, a, b, s):
    terms = []

    def walk(x, y):
        if isinstance(x, dict) and isinstance(y, dict):
            for k in dict.keys(x):
                if isinstance(k, str) and k.startswith("_"):
                    continue
                if k not in y:
                    terms.append(False)
                elif k in ("offset1", "offset2") and "data" in x and "length" in x:
                    terms.append(ctx.eq(y[k], x[k] + s))
                else:
                    walk(x[k], y[k])
        elif isinstance(x, (list, tuple)) and isinstance(y, (list, tuple)) and len(x) == len(y):
            for u, v in zip(x, y):
                walk(u, v)
        else:
            terms.append(ctx.eq(x, y))
    walk(a, b)
    return api.and_terms(terms)


def instances(tier, seed):
    out = []
    gen = generate(tier, seed, depth2=0 if tier == "quick" else 300)
    from .ref import static_size
    sizes = {}
    for sp in gen:
        try:
            sizes[src(sp)] = static_size(sp)
        except Exception:
            pass
    pool = [src(s) for s in (gen[::4] if tier == "quick" else gen)] + CURATED
    seen = set()
    for s in pool:
        if s in seen:
            continue
        seen.add(s)
        nn = 4 if tier == "quick" else 5
        if sizes.get(s) and sizes[s] > nn:
            nn = min(sizes[s], 9)
        cur = s in CURATED
        heavy = any(t in s for t in ("GreedyRange", "PrefixedArray", "FlagsEnum", "Array(this", "RepeatUntil")) and not cur
        out.append(dict(name="frame  %s" % s, params=dict(kind="frame", source=s, n=nn)))
        if not heavy or tier != "quick":
            out.append(dict(name="history  %s" % s, params=dict(kind="history", source=s, n=nn if cur else min(nn, 3) if not sizes.get(s) else nn)))
        out.append(dict(name="entry points  %s" % s, params=dict(kind="entry", source=s, n=max(nn, 6) if (cur or sizes.get(s)) and not heavy else nn)))
        if cur and "NullTerminated" in s and not sizes.get(s):
            # an odd number of bytes as well: multi-byte terminators read unit by unit, and a trailing partial unit is dropped
            out.append(dict(name="entry points, 5 bytes  %s" % s, params=dict(kind="entry", source=s, n=5)))
    for a, b in PAIRS:
        for order in (0, 1):
            x, y = (a, b) if order == 0 else (b, a)
            out.append(dict(name="pair %s | %s" % (x, y), params=dict(kind="pair", a=x, b=y, n=4), expect=["parsed"]))
    for s in CURATED[:25]:
        out.append(dict(name="compile does not mutate %s" % s, params=dict(kind="compile", source=s)))
    out.append(dict(name="build_file with builders that read back what they wrote", params=dict(kind="filebuild", n=0, source="Pass")))
    return out


# ---------------------------------------------------------------------------------------------
_ATOMS = (int, float, str, bytes, bool, type(None), complex)
SKIP_ATTRS = ("stream2", "retval")           # documented per-call state (Rebuffered, Debugger)


def fingerprint(C, roots, limit=20000):
    """structural fingerprint of everything reachable from roots + the package's classes and module globals"""
    seen = {}
    out = []
    budget = [limit]
    keep = []             # keeps every visited object alive so that ids are not recycled during the walk

    def walk(o, depth):
        budget[0] -= 1
        if budget[0] < 0 or depth > 12:
            return ("...",)
        if isinstance(o, _ATOMS):
            return (type(o).__name__, o)
        if isinstance(o, (SymInt, SymBool, SymBytes, ShByteArray)):
            return ("proxy", id(o))
        if isinstance(o, (types.FunctionType, types.BuiltinFunctionType, types.MethodType, type, types.ModuleType)):
            return ("ref", id(o))
        i = id(o)
        if i in seen:
            return ("seen", seen[i])
        seen[i] = len(seen)
        keep.append(o)
        if isinstance(o, dict):
            items = []
            for k, v in list(dict.items(o)):
                if isinstance(k, str) and k in SKIP_ATTRS:
                    continue
                items.append((repr(k) if isinstance(k, _ATOMS) else id(k), walk(v, depth + 1)))
            return ("dict", type(o).__name__, tuple(items))
        if isinstance(o, (list, tuple, set, frozenset)):
            return (type(o).__name__, tuple(walk(x, depth + 1) for x in list(o)))
        if isinstance(o, bytearray):
            return ("bytearray", bytes(o))
        d = getattr(o, "__dict__", None)
        slots = []
        for klass in type(o).__mro__:
            for sname in getattr(klass, "__slots__", ()) or ():
                if hasattr(o, sname) and sname not in ("__dict__", "__weakref__"):
                    slots.append((sname, walk(getattr(o, sname), depth + 1)))
        if isinstance(d, dict):
            return ("obj", type(o).__name__, walk(d, depth + 1), tuple(slots))
        return ("opaque", type(o).__name__, id(o), tuple(slots))
    for r in roots:
        out.append(walk(r, 0))
    mods = C.modules if hasattr(C, "modules") else {}
    for name in sorted(mods):
        m = mods[name]
        g = {}
        for k, v in list(vars(m).items()):
            if k.startswith("__") or isinstance(v, (types.ModuleType, types.FunctionType, type)):
                if isinstance(v, type) and getattr(v, "__module__", "").startswith("construct"):
                    cd = {ck: cv for ck, cv in vars(v).items() if not ck.startswith("__") and not isinstance(cv, (types.FunctionType, staticmethod, classmethod, property, types.MemberDescriptorType, types.GetSetDescriptorType))}
                    out.append(("class", v.__name__, walk(cd, 1)))
                continue
            g[k] = v
        out.append(("module", name, walk(g, 1)))
    return out


def _fp(C, d):
    if not hasattr(C, "modules"):
        return None                    # pristine copy in replay mode has .modules too; defensive
    return fingerprint(C, [d])


def _force(r):
    """evaluate lazy results inside the outcome (a lazily skipped member may still fail when it is finally parsed)"""
    if r is None or not r.ok:
        return r
    return api.outcome(_plain, r.value)


def _same(ctx, r1, r2):
    r1, r2 = _force(r1), _force(r2)
    if r1.ok != r2.ok:
        return False
    if not r1.ok:
        return type(r1.exc).__name__ == type(r2.exc).__name__
    a, b = r1.value, r2.value
    if callable(a) and callable(b):
        return True
    return ctx.eq(_plain(a), _plain(b))


def _plain(v):
    """lazy containers -> plain values (forces evaluation), so equality is structural"""
    t = type(v).__name__
    if t == "LazyContainer":
        return {k: _plain(v[k]) for k in v.keys()}
    if t == "LazyListContainer":
        return [_plain(x) for x in v]
    if isinstance(v, dict):
        return {k: _plain(x) for k, x in dict.items(v) if not (isinstance(k, str) and k.startswith("_"))}
    if isinstance(v, (list, tuple)):
        return [_plain(x) for x in v]
    if callable(v) and t == "function":
        return "<thunk>"
    return v


def harness(ctx, C, p):
    kind = p["kind"]
    if kind == "compile":
        d = mk(C, p["source"])
        before = _fp(C, d)
        r = api.outcome(d.compile)
        after = _fp(C, d)
        ctx.check("compile() does not mutate the construct, the package classes or module globals", before == after)
        return "ok"
    n = p["n"]
    x = ctx.bytes("x", n)
    y = ctx.bytes("y", n)
    if kind == "pair":
        a, b = mk(C, p["a"]), mk(C, p["b"])
        r1 = api.outcome(a.parse, x)
        fa = _fp(C, a)
        api.outcome(b.parse, y)
        api.outcome(b.build, api.outcome(b.parse, x).value) if api.outcome(b.parse, x).ok else None
        ctx.check("calls on another construct of the same class leave this construct and all shared state untouched", fa == _fp(C, a))
        r2 = api.outcome(a.parse, x)
        ctx.check("a construct's parse result does not depend on calls made on another construct", _same(ctx, r1, r2))
        if r1.ok:
            b1 = api.outcome(a.build, r1.value)
            api.outcome(b.parse, y)
            b2 = api.outcome(a.build, r1.value)
            ctx.check("a construct's build result does not depend on calls made on another construct", _same(ctx, b1, b2))
            return "parsed"
        return "rejected"
    d = mk(C, p["source"])
    if kind == "frame":
        f0 = _fp(C, d)
        r1 = api.outcome(d.parse, x)
        f1 = _fp(C, d)
        ctx.check("parse (successful or failing) leaves no trace in the construct, the package classes or module globals", f0 == f1)
        r1 = _force(r1)
        f1 = _fp(C, d)
        if r1.ok:
            api.outcome(d.build, r1.value)
            ctx.check("build (successful or failing) leaves no trace", f1 == _fp(C, d))
        api.outcome(d.sizeof)
        api.outcome(d.build, None)
        ctx.check("sizeof and a failing build leave no trace", f1 == _fp(C, d))
        return "ok"
    if kind == "history":
        r1 = _force(api.outcome(d.parse, x))
        b1 = api.outcome(d.build, r1.value) if r1.ok else None
        ry = _force(api.outcome(d.parse, y))
        if ry.ok:
            api.outcome(d.build, ry.value)
        api.outcome(d.sizeof)
        api.outcome(d.build, None)
        r2 = api.outcome(d.parse, x)
        ctx.check("parse(x) gives the same result after unrelated parse(y) / build / sizeof calls (successful or failing)", _same(ctx, r1, r2))
        r2 = _force(r2)
        if r1.ok and r2.ok:
            b2 = api.outcome(d.build, r2.value)
            ctx.check("build(v) gives the same bytes after unrelated calls", _same(ctx, b1, b2))
        return "ok"
    if kind == "filebuild":
        # builders that read back what they wrote (RawCopy built from a value; Checksum over it) work through build_file as through build
        d2 = mk(C, "Struct('r'/RawCopy(Struct('a'/Int16ub, 'b'/VarInt)), 'n'/Rebuild(Byte, this.r.length), 'c'/Checksum(Bytes(2), lambda data: data[:2], this.r.data))")
        a, b = ctx.int("a", 0, 65535), ctx.int("b", 0, 2 ** 14 - 1)
        v = dict(r=dict(value=dict(a=a, b=b)))
        b1 = api.outcome(d2.build, v)
        ctx.check("build succeeds", b1.ok)
        out = ctx.file_put("rawcopy.bin", b"")
        b4 = api.outcome(d2.build_file, v, out)
        ctx.check("build_file succeeds where build does (got %s)" % ("ok" if b4.ok else type(b4.exc).__name__), b4.ok)
        ctx.check("the file holds exactly the bytes build returns", ctx.eq(ctx.file_get(out), b1.value))
        r4 = api.outcome(d2.parse_file, out)
        ctx.check("parse_file of that file returns the value", r4.ok and ctx.fork(ctx.eq(r4.value.r.value.a, a)) and ctx.fork(ctx.eq(r4.value.r.value.b, b)))
        return "ok"
    if kind == "entry":
        r1 = api.outcome(d.parse, x)
        junk = ctx.bytes("junk", 2)
        s = ctx.choice("offset", [0, 1, 2])
        st = ctx.stream(junk[:s] + x)
        st.seek(s)
        uses_abs = any(t in p["source"] for t in ("Pointer", "Tell", "RawCopy", "Seek", "OffsettedEnd"))
        r2 = api.outcome(d.parse_stream, st)
        if not uses_abs:
            ctx.check("parse_stream at a non-zero starting offset returns what parse returns", _same(ctx, r1, r2))
        elif "RawCopy" in p["source"] and not any(t in p["source"] for t in ("Pointer", "Tell", "Seek", "OffsettedEnd")):
            # RawCopy reports absolute offsets: they move with the starting offset, everything else (data, value, length) does not
            ctx.check("parse_stream at a non-zero starting offset succeeds exactly when parse does", r1.ok == r2.ok)
            if r1.ok:
                ctx.check("parse_stream at a non-zero starting offset returns what parse returns, RawCopy offsets shifted by the starting offset", _shifted(ctx, r1.value, r2.value, s))
        if r1.ok and not type(r1.value).__name__.startswith("Lazy") and not callable(r1.value) and "Lazy" not in p["source"]:
            b1 = api.outcome(d.build, r1.value)
            st2 = ctx.stream(junk[:s])
            st2.seek(s)
            b2 = api.outcome(d.build_stream, r1.value, st2)
            if not uses_abs:
                ctx.check("build_stream succeeds exactly when build does", b1.ok == b2.ok)
                if b1.ok:
                    ctx.check("build_stream at a non-zero starting offset emits the bytes build returns", ctx.eq(st2.getvalue(), junk[:s] + b1.value))
        # files: parse_file reads what parse reads; build_file leaves in the file what build returns (the file is opened for
        # reading too, so builders that read back -- RawCopy -- work there as well)
        path = ctx.file_put("in.bin", x)
        r4 = api.outcome(d.parse_file, path)
        if "Lazy" not in p["source"]:          # a lazy result needs its stream open; parse_file closes the file (documented)
            ctx.check("parse_file returns what parse returns", _same(ctx, r1, r4))
        if r1.ok and not type(r1.value).__name__.startswith("Lazy") and not callable(r1.value) and "Lazy" not in p["source"]:
            b1 = api.outcome(d.build, r1.value)
            out = ctx.file_put("out.bin", b"stale contents")
            b4 = api.outcome(d.build_file, r1.value, out)
            ctx.check("build_file succeeds exactly when build does", b1.ok == b4.ok)
            if b1.ok:
                ctx.check("build_file leaves exactly the bytes build returns in the file", ctx.eq(ctx.file_get(out), b1.value))
        if not ctx.symbolic:
            r3 = api.outcome(d.parse, bytearray(x))
            ctx.check("parse(bytearray) returns what parse(bytes) returns", _same(ctx, r1, r3))
            r5 = api.outcome(d.parse, memoryview(x))
            ctx.check("parse(memoryview) returns what parse(bytes) returns", _same(ctx, r1, r5))
        return "ok"
    raise ValueError(kind)
