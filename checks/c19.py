"""C19 -- KSY export describes the same byte layout the construct parses (translation validation).

Programs: Structs assembled from the exportable fragment (integers, floats, bytes, flags, enums, nested
structs, arrays, ranges, prefixed, padded, conditionals, bit structs, pointers, terminated / stripped
regions, strings), each followed by a probe byte so that a wrong extent shifts a later field.
Method: the dictionary that export_ksy serialises (`_compileseq(KsyGen())` + instances/enums/types) is
interpreted by a mini KSY interpreter (checks/ksy.py) over the engine's symbolic bytes and compared, field
by field, with what the construct itself does on the same bytes (extents from RawCopy, whose exactness is
C14).  Symbolic: every input byte (all inputs the construct accepts, a superset of the canonical encodings).
Obligations: ids in declaration order equal member names; every field has the same byte extent and the
same scalar value as parse.
"""
import random
from symx import api
from symx.values import mkbytes
from .common import mk
from . import ksy

PROPERTY = "C19"
LEVEL = "translation_validation"
INSTANCE_BUDGET_S = {"quick": 90, "thorough": 600}
EXHAUSTIVE = {"quick": False, "thorough": False}
BOUNDS = {"quick": dict(programs="every exportable member alone + seeded 90 pairs, between a leading count byte and a trailing probe byte", inputs="8 symbolic bytes"),
          "thorough": dict(programs="all ordered pairs of members", inputs="10 symbolic bytes")}
OUTSIDE = ["constructs for which export raises 'does not implement KSY export' (Aligned, Switch, Default/Rebuild/Computed/Tell members): outside the exportable fragment by definition",
           "the YAML serialisation itself (ruamel.yaml is absent); the exported dictionary is interpreted directly", "doc / -construct-render annotations"]
ASSUMPTIONS = ["mini KSY interpreter checks/ksy.py (accepts the exporter's spelling dialect: u1be, this['n'], expression objects by their repr, names resolved through enclosing types)", "extents of the construct's members are taken from RawCopy (C14)"]

# (name, source, wrappable in RawCopy, greedy)
MEMBERS = [
    ("u8", "Byte", True, False), ("u16l", "Int16ul", True, False), ("s32b", "Int32sb", True, False), ("u24", "Int24ub", True, False), ("s40l", "BytesInteger(5, signed=True, swapped=True)", True, False),
    ("f32", "Float32b", True, False), ("f64l", "Float64l", True, False), ("raw2", "Bytes(2)", True, False), ("rawn", "Bytes(this.n & 3)", True, False), ("arr", "Array(2, Int16ub)", True, False),
    ("arrn", "Array(this.n & 3, Byte)", True, False), ("rng", "GreedyRange(Int16ub)", True, True), ("pre", "Prefixed(Byte, GreedyBytes)", True, False), ("parr", "PrefixedArray(Byte, Int16ub)", True, False),
    ("pad", "Padded(3, Byte)", True, False), ("padding", "Padding(2)", True, False), ("magic", "Const(b'MZ')", True, False), ("cint", "Const(258, Int16ul)", True, False),
    ("cond", "If(this.n == 1, Int16ub)", True, False), ("ite", "IfThenElse(this.n > 2, Byte, Int16ub)", True, False), ("bits", "BitStruct('a'/BitsInteger(3), 'b'/Flag, 'c'/Nibble)", True, False),
    ("bits16", "BitStruct('a'/BitsInteger(4), 'b'/BitsInteger(12))", True, False), ("ptr", "Pointer(this.n, Byte)", False, False), ("ptr4", "Pointer(1, Int16ub)", False, False),
    ("en", "Enum(Byte, one=1, two=2)", True, False), ("fl", "FlagsEnum(Byte, a=1, b=2, hi=128)", True, False), ("fl16", "FlagsEnum(Int16ul, a=1, b=256, top=0x8000)", True, False), ("ens", "Enum(Int16sl, neg=-2, one=1)", True, False), ("enalias", "Enum(Byte, red=1, green=2, crimson=1, blue=3)", True, False),
    ("cpre", "Const(b'ab', Prefixed(Byte, GreedyBytes))", True, False), ("cnt", "Const(b'ab', NullTerminated(GreedyBytes))", True, False), ("cpad", "Const(7, Padded(3, Byte))", True, False),
    ("shared", "SHARED", True, False), ("sharedbits", "Bitwise(Array(4, SHARED))", True, False), ("sharedarr", "Array(2, SHARED)", True, False), ("flag", "Flag", True, False),
    ("inner", "Struct('x'/Byte, 'y'/Int16ub)", True, False), ("arrst", "Array(2, Struct('z'/Byte))", True, False), ("until", "RepeatUntil(obj_ == 0, Byte)", True, False),
    ("nt", "NullTerminated(GreedyBytes)", True, False), ("nt_inc", "NullTerminated(GreedyBytes, include=True)", True, False), ("nt_nc", "NullTerminated(GreedyBytes, consume=False)", True, False),
    ("nt_inc_nc", "NullTerminated(GreedyBytes, include=True, consume=False)", True, False),
    ("arr_until", "Array(2, RepeatUntil(obj_ == 0, Byte))", True, False), ("arr_named", "Array(2, 'sample'/Int16ub)", True, False), ("arr_arr", "Array(2, Array(2, Byte))", True, False),
    ("pas32bom", "PascalString(Byte, 'utf32')", True, False),
    ("u16n", "Int16un", True, False), ("s32n", "Int32sn", True, False), ("fl16n", "FlagsEnum(Int16un, a=1, b=256, top=0x8000)", True, False), ("fl32n", "FlagsEnum(Int32un, a=1, z=0x01000000)", True, False),
    ("en16n", "Enum(Int16un, one=1, big=0x0102)", True, False), ("f32n", "Float32n", True, False), ("ns", "FixedSized(3, NullStripped(GreedyBytes))", True, False), ("varint", "VarInt", True, False), ("hex", "Hex(Int32ub)", True, False),
    ("rest", "GreedyBytes", True, True), ("cstr", "CString('ascii')", True, False), ("pstr", "PaddedString(3, 'ascii')", True, False), ("pas", "PascalString(Byte, 'utf8')", True, False),
    ("seq", "Sequence(Byte, Int16ub)", True, False),
    # members of a bit region that are exported through a wrapper type (repeaters / conditionals over a one-bit field)
    ("bitsarr", "BitStruct('v'/Nibble, 'o'/Array(3, Flag), 'w'/Flag)", True, False),
    ("bitscond", "BitStruct('v'/BitsInteger(3), 'o'/If(this.v == 1, Flag), 'w'/BitsInteger(4), 'z'/If(this.v != 1, Flag))", True, False),
    ("bitsarr2", "BitStruct('q'/Array(2, Array(2, Flag)), 'r'/Array(3, Padding(1)), 'w'/Flag)", True, False),
]


# layouts KSY cannot express: the exporter must refuse them ("does not implement KSY export"), not describe something else
REFUSED = ["PaddedString(8, 'utf16')", "PaddedString(6, 'utf_16_le')", "CString('utf_16_be')", "CString('utf32')", "PaddedString(8, 'utf_32_le')", "NullTerminated(GreedyBytes, term=b'\\r\\n')",
           "Struct('s'/CString('utf_16_le'), 't'/Byte)", "Array(2, PaddedString(4, 'utf_16_le'))",
           # `size` counts bytes: a field of n bits inside a bit region has no such description
           "BitStruct('v'/BitsInteger(4), 'o'/Padded(3, Flag), 'w'/Flag)", "BitStruct('o'/Bytes(8))", "BitStruct('o'/FixedSized(8, BitsInteger(3)))", "Bitwise(Padded(8, Nibble))"]


# Structs with anonymous members (signatures, padding): every member keeps its own schema entry, in declaration order
LAYOUTS = [
    [(None, "Const(b'\\x89IMG')"), ("width", "Int16ub"), (None, "Padding(2)"), ("height", "Int16ul"), (None, "Const(b'\\r\\n')")],
    [(None, "Const(b'MZ')"), (None, "Const(7, Byte)"), ("a", "Byte"), (None, "Padding(1)"), (None, "Padding(2)"), ("b", "Int16ub")],
    [("a", "Byte"), (None, "Byte"), (None, "Int16ub"), ("b", "Byte"), (None, "Bytes(2)")],
    [(None, "Padding(1)"), ("f", "BitStruct('x'/Nibble, Padding(2), 'y'/Flag, Padding(1))"), (None, "Const(b'!')")],
]


def instances(tier, seed):
    rnd = random.Random(seed * 53 + 29)
    out = []
    names = [m[0] for m in MEMBERS]
    big = {"s32b": 4, "s40l": 5, "f32": 4, "f64l": 8, "arr": 4, "hex": 4, "sharedarr": 4, "seq": 3, "u24": 3, "pad": 3, "ns": 3, "pstr": 3, "cpad": 3, "inner": 3, "cpre": 3, "cnt": 3, "bits16": 2,
           "arr_until": 4, "arr_named": 4, "arr_arr": 4, "pas32bom": 9, "u16l": 2, "u16n": 2, "fl16n": 2, "en16n": 2, "s32n": 4, "fl32n": 4, "f32n": 4, "nt_inc": 2, "nt_nc": 2, "nt_inc_nc": 2, "raw2": 2, "cint": 2, "magic": 2, "arrst": 2, "fl16": 2, "ens": 2, "padding": 2}

    def need(ms):
        return max(8, 3 + sum(big.get(m, 1) for m in ms) + 1)
    for m in names:
        out.append(dict(name="member %s" % m, params=dict(members=[m], n=need([m])), expect=["accept"]))
    # NullTerminated with include=True / consume=False is not its own inverse by documented design (build appends a terminator the value
    # already holds / leaves the terminator to the next member): such a member is only placed last, where the probe byte follows it
    asym = ("nt_inc", "nt_nc", "nt_inc_nc")
    pairs = [(a, b) for a in names for b in names if a != b and not dict((m[0], m[3]) for m in MEMBERS)[a] and a not in asym]
    rnd.shuffle(pairs)
    for a, b in (pairs[:90] if tier == "quick" else pairs):
        out.append(dict(name="members %s,%s" % (a, b), params=dict(members=[a, b], n=need([a, b])), expect=["accept"]))
    for i, lay in enumerate(LAYOUTS):
        out.append(dict(name="layout %d  %s" % (i, ", ".join("%s/%s" % (a or "-", b) for a, b in lay)[:70]), params=dict(layout=i, members=[], n=0), expect=["accept"]))
    out.append(dict(name="history  an Enum instance shared by two exported constructs", params=dict(history=1, members=[], n=0), expect=["accept"]))
    for r in REFUSED:
        out.append(dict(name="refused %s" % r, params=dict(refused=r, members=[], n=0)))
    for a, b in (("shared", "sharedbits"), ("sharedbits", "shared"), ("sharedarr", "sharedbits"), ("sharedbits", "sharedarr")):
        if not any(o["name"] == "members %s,%s" % (a, b) for o in out):
            out.append(dict(name="members %s,%s" % (a, b), params=dict(members=[a, b], n=need([a, b])), expect=["accept"]))
    return out


def _flt(ctx, C):
    def f(items, size, little):
        fmt = ("<" if little else ">") + {2: "e", 4: "f", 8: "d"}[size]
        return C.FormatField(fmt[0], fmt[1]).parse(mkbytes(items))
    return f


def match(ctx, kv, cv, terms, where):
    """structural comparison of a KSY value with the construct's parsed value; appends obligations to terms"""
    if isinstance(kv, ksy.Fields):
        if isinstance(cv, dict):
            for i, s, e, v in kv:
                if i is not None and i in cv:
                    match(ctx, v, cv[i], terms, where + "." + str(i))
                elif i is not None and i.startswith("unknown_"):
                    continue
                elif i is not None:
                    terms.append(("%s: schema field %r has no counterpart in the parsed value" % (where, i), False))
            return
        if isinstance(cv, (list, tuple)) and all(i is None for i, s, e, v in kv):
            for (i, s, e, v), c in zip(kv, cv):
                match(ctx, v, c, terms, where)
            return
        # synthetic wrapper types: lengthfield/data, countfield/data, thenvalue/elsesubcon
        ids = [i for i, s, e, v in kv]
        if "data" in ids:
            return match(ctx, kv.get("data"), cv, terms, where + ".data")
        if "thenvalue" in ids:
            a, b = kv.get("thenvalue"), kv.get("elsesubcon")
            return match(ctx, a if a is not None else b, cv, terms, where)
        if len(kv) == 1:
            return match(ctx, kv[0][3], cv, terms, where)
        terms.append(("%s: schema describes a structure, parse returns a scalar" % where, False))
        return
    if isinstance(kv, tuple) and kv and kv[0] == "contents":
        return            # a constant: KSY checks the raw bytes (done by the interpreter); the extent is compared by the caller
    if isinstance(kv, tuple) and kv and kv[0] == "text":
        r = api.outcome(kv[1].decode, kv[2]) if not isinstance(kv[1], bytes) else api.outcome(bytes(kv[1]).decode, kv[2])
        terms.append(("%s: text decodes" % where, r.ok))
        if r.ok:
            terms.append(("%s: text value" % where, ctx.eq(r.value, cv)))
        return
    if isinstance(kv, list):
        if not isinstance(cv, (list, tuple)) and not type(cv).__name__ == "ListContainer":
            terms.append(("%s: schema describes a repetition, parse returns a scalar" % where, False))
            return
        cvl = list(cv)
        terms.append(("%s: repetition count" % where, len(kv) == len(cvl)))
        for a, b in zip(kv, cvl):
            match(ctx, a, b, terms, where + "[]")
        return
    if isinstance(cv, str) and not isinstance(kv, str):
        return            # enum label: the table is compared separately
    if cv is None:
        return            # Padding / Pass-like members carry no value
    if type(kv).__name__ in ("bytes", "SymBytes") and type(cv).__name__ in ("int", "SymInt", "bool", "SymBool"):
        return            # `contents`: KSY yields the raw bytes, the construct the decoded constant (extent is compared)
    terms.append(("%s: value" % where, ctx.eq(kv, cv)))


def _cp(ch):
    if isinstance(ch, str):
        return ord(ch)
    it = getattr(ch, "items", None)
    return it[0] if it else ch


def _layout(ctx, C, lay):
    d = mk(C, "Struct(%s)" % ", ".join(("%r/%s" % (a, b)) if a else b for a, b in lay))
    sizes = [mk(C, b).sizeof() for a, b in lay]
    gen = C.KsyGen()
    rexp = api.outcome(d._compileseq, gen)
    ctx.check("export succeeds for a construct of the exportable fragment (got %s)" % ("ok" if rexp.ok else type(rexp.exc).__name__ + ": " + str(rexp.exc)[:60]), rexp.ok)
    schema = dict(seq=rexp.value, instances=gen.instances, enums=gen.enums, types=gen.types)
    ids = [f.get("id") for f in schema["seq"]]
    ctx.check("the schema has one entry per member, in declaration order, named members under their identifiers (%s)" % ids, ids == [a for a, b in lay])
    raw = ctx.bytes("data", sum(sizes))
    r0 = api.outcome(d.parse, raw)
    if not r0.ok:
        return "reject"
    try:
        fields = ksy.Interp(schema, flt=_flt(ctx, C)).run(list(raw))
    except ksy.Unsupported as e:
        ctx.check("the schema can be given a layout: %s" % e, False)
        return "unsupported"
    except ksy.KsyError as e:
        ctx.check("interpreting the schema accepts what the construct accepts (%s)" % e, False)
        return "ksy-reject"
    terms, pos = [], 0
    for (fid, start, end, val), (a, b), sz in zip(fields, lay, sizes):
        terms.append(("member %d (%s): start offset" % (lay.index((a, b)), a or b), ctx.eq(start, pos)))
        terms.append(("member %d (%s): end offset" % (lay.index((a, b)), a or b), ctx.eq(end, pos + sz)))
        pos += sz
        if a:
            match(ctx, val, r0.value[a], terms, a)
    for label, t in terms:
        ctx.check(label, t)
    return "accept"


def _history(ctx, C):
    """the schema of a construct does not depend on what was exported before it, even when constructs share sub-objects"""
    ns = {}
    kind = mk(C, "Enum(Byte, one=1, two=2)")
    status = mk(C, "Enum(Byte, ok=0, fail=7, other=9)")
    first = mk(C, "Struct('kind'/KIND, 'x'/Byte)", {"KIND": kind})
    second = mk(C, "Struct('status'/STATUS, 'kind'/KIND, 'again'/KIND)", {"KIND": kind, "STATUS": status})
    api.outcome(first._compileseq, C.KsyGen())
    api.outcome(first.export_ksy, "first") if hasattr(first, "export_ksy") else None
    gen = C.KsyGen()
    rexp = api.outcome(second._compileseq, gen)
    ctx.check("export succeeds (got %s)" % ("ok" if rexp.ok else type(rexp.exc).__name__), rexp.ok)
    seq = rexp.value
    ctx.check("the schema lists the members in declaration order", [f.get("id") for f in seq] == ["status", "kind", "again"])
    raw = ctx.bytes("data", 3)
    r0 = api.outcome(second.parse, raw)
    ctx.check("three bytes parse", r0.ok)
    for i, (fid, en) in enumerate((("status", status), ("kind", kind), ("again", kind))):
        tab = gen.enums.get(seq[i].get("enum"))
        ctx.check("field %s refers to an enumeration table of the schema" % fid, isinstance(tab, dict))
        want = dict((int(v), str(k)) for k, v in en.encmapping.items())
        ctx.check("field %s: the table it refers to holds this field's labels (%r, the construct maps %r)" % (fid, tab, want), dict((int(v), str(l)) for v, l in tab.items()) == want)
        # and the label parse gives for the byte read is the table's label for it
        b = raw[i]
        for v, lab in sorted(want.items()):
            if ctx.fork(ctx.eq(b, v)):
                ctx.check("field %s: byte %d is labelled %r by parse" % (fid, v, lab), str(r0.value[fid]) == tab.get(v, tab.get(str(v))))
                break
    return "accept"


def harness(ctx, C, p):
    if "refused" in p:
        d = mk(C, "Struct('n'/Byte, 'm'/%s, 't'/Byte)" % p["refused"])
        r = api.outcome(d._compileseq, C.KsyGen())
        ctx.check("a layout KSY cannot express is refused with a ConstructError, not exported as something else (got %s)" % ("a schema: %r" % (r.value,) if r.ok else type(r.exc).__name__),
                  (not r.ok) and isinstance(r.exc, C.ConstructError))
        return "refused"
    if "layout" in p:
        return _layout(ctx, C, LAYOUTS[p["layout"]])
    if "history" in p:
        return _history(ctx, C)
    table = dict((m[0], m) for m in MEMBERS)
    ms = [table[x] for x in p["members"]]
    plain = "Struct('n'/Byte, %s, 't'/Byte)" % ", ".join("%r/%s" % (m[0], m[1]) for m in ms)
    wrapped = "Struct('n'/Byte, %s, 't'/RawCopy(Byte))" % ", ".join(("%r/RawCopy(%s)" % (m[0], m[1])) if m[2] else ("%r/%s" % (m[0], m[1])) for m in ms)
    if any(m[3] for m in ms):
        plain = plain.replace(", 't'/Byte)", ")")
        wrapped = wrapped.replace(", 't'/RawCopy(Byte))", ")")
    shared = mk(C, "Struct('a'/Flag, 'b'/Flag, 'c'/BitsInteger(6) if False else Padding(6))") if False else mk(C, "Struct('a'/Flag, 'b'/Flag)")
    if "sharedbits" in p["members"] and "shared" not in p["members"] and "sharedarr" not in p["members"]:
        pass
    d, dx = mk(C, plain, {"SHARED": shared}), mk(C, wrapped, {"SHARED": shared})
    gen = C.KsyGen()
    rexp = api.outcome(d._compileseq, gen)
    ctx.check("export succeeds for a construct of the exportable fragment (got %s)" % ("ok" if rexp.ok else type(rexp.exc).__name__ + ": " + str(rexp.exc)[:60]), rexp.ok)
    schema = dict(seq=rexp.value, instances=gen.instances, enums=gen.enums, types=gen.types)
    ids = [f.get("id") for f in schema["seq"]]
    want_ids = ["n"] + [m[0] for m in ms] + ([] if any(m[3] for m in ms) else ["t"])
    ctx.check("the schema lists the members in declaration order under the same identifiers (%s)" % ids, ids == want_ids)
    raw = ctx.bytes("data", p["n"])
    r0 = api.outcome(d.parse, raw)
    if not r0.ok:
        return "reject"
    hasptr = any(m[1].startswith("Pointer(") for m in ms)
    if hasptr:
        # building a Pointer member writes at its target, which may lie inside another member: the rebuilt bytes are
        # then not an encoding of the value at all (overlap is the user's business).  Pointer members occupy no
        # bytes of the sequence, so the canonical encoding is built by the same Struct without them.
        twin = mk(C, "Struct('n'/Byte, %s%s)" % ("".join("%r/%s, " % (m[0], m[1]) for m in ms if not m[1].startswith("Pointer(")),
                                                    "" if any(m[3] for m in ms) else "'t'/Byte"), {"SHARED": shared})
        rb = api.outcome(twin.build, r0.value)
    else:
        rb = api.outcome(d.build, r0.value)
    if not rb.ok:
        return "unbuildable"
    data = rb.value                       # a canonical encoding (of a value parse can produce)
    if hasptr and not any(m[3] for m in ms) and len(data) < len(raw):
        data = data + raw[len(data):]     # bytes after the sequence, for pointer targets to land on
    if hasptr and not api.outcome(dx.parse, data).ok:
        return "pointer target outside the canonical encoding"
    rp = api.outcome(dx.parse, data)
    ctx.check("the canonical encoding parses", rp.ok)
    obj = rp.value
    for m in ms:                          # text values with an embedded NUL cannot be expressed by strz: outside
        if m[0] in ("pstr", "cstr"):
            v = obj[m[0]].value
            for ch in (v if not isinstance(v, str) else [ord(c) for c in v]):
                cp = ch if not isinstance(ch, str) else ord(ch)
                ctx.assume(_cp(ch) != 0)
    interp = ksy.Interp(schema, flt=_flt(ctx, C))
    try:
        fields = interp.run(list(data))
    except ksy.Unsupported as e:
        ctx.check("the schema can be given a layout: %s" % e, False)
        return "unsupported"
    except ksy.KsyError as e:
        ctx.check("interpreting the schema accepts what the construct accepts (%s)" % e, False)
        return "ksy-reject"
    terms = []
    for (fid, start, end, val), m in zip(fields, [("n", "Byte", False, False)] + ms + [("t", "Byte", True, False)]):
        c = obj[fid]
        if m[2]:
            terms.append(("field %s: start offset" % fid, ctx.eq(c.offset1, start)))
            terms.append(("field %s: end offset" % fid, ctx.eq(c.offset2, end)))
            cv = c.value
        else:
            cv = c
        match(ctx, val, cv, terms, fid)
    for label, t in terms:
        ctx.check(label, t)
    # enumerations: the exported table maps exactly the values parse labels
    for name, tab in gen.enums.items():
        for m in ms:
            if m[1].startswith("Enum("):
                en = mk(C, m[1])
                if set(int(v) for v in tab) == set(en.decmapping):
                    for v, lab in tab.items():
                        ctx.check("enum table %s: %r -> %r agrees with parse" % (name, v, lab), str(en.parse(en.subcon.build(int(v)))) == lab)
    return "accept"
