"""C11 -- context expressions mean what their Python spelling means, and print as it.

Programs: expression trees (enumerated).  Symbolic: every context integer.  For each tree the
ExprMixin object built with construct's placeholders is evaluated on a symbolic context and
compared with (a) an independent evaluation of the same tree with native Python operators and
(b) `eval(repr(expr))` with the placeholders bound to the context values -- the way generated
code uses the repr.  Outcomes (value or exception class) must agree on every path.
"""
import itertools
import operator
import random
from symx import api

PROPERTY = "C11"
LEVEL = "model_checking"
INSTANCE_BUDGET_S = {"quick": 120, "thorough": 600}
EXHAUSTIVE = {"quick": False, "thorough": False}
GROUP = 24

BIN = ["+", "-", "*", "/", "//", "%", "**", "^", "<<", ">>", "&", "|", "<", "<=", ">", ">=", "==", "!="]
UN = ["-", "+", "~"]
OPF = {"+": operator.add, "-": operator.sub, "*": operator.mul, "/": operator.truediv, "//": operator.floordiv,
       "%": operator.mod, "**": operator.pow, "^": operator.xor, "<<": operator.lshift, ">>": operator.rshift,
       "&": operator.and_, "|": operator.or_, "<": operator.lt, "<=": operator.le, ">": operator.gt, ">=": operator.ge,
       "==": operator.eq, "!=": operator.ne}
UNF = {"-": operator.neg, "+": operator.pos, "~": operator.not_}   # ~expr is logical not (docs/meta.rst)

BOUNDS = {
    "quick": dict(context_integers="|x| <= 256 (a, b, _.c, obj_ each independent)", depth="all trees of depth <= 1 over 9 leaf kinds; "
                  "depth 2: every form with a unary operator (unary over binary, binary over unary on either side, unary over unary) over 3 leaf kinds, "
                  "plus a seeded sample of 480 binary-over-binary trees", shifts_and_powers="symbolic shift counts / exponents assumed in -1..6 / 0..3",
                  strings="str/bytes constants on either side with concrete str/bytes context values"),
    "thorough": dict(context_integers="|x| <= 65536", depth="as quick plus seeded sample of 6000 binary-over-binary and 3000 depth-3 trees",
                     shifts_and_powers="as quick"),
}
OUTSIDE = ["operator `in` (Python coerces __contains__ to bool; not in the property's operator table)",
           "list_ inside binary expressions (BinExpr passes a single argument to its operands)",
           "float contexts; negative exponents; exponents > 3 and shift counts > 6 when symbolic; repetition counts of text / bytes constants outside -3..4"]
ASSUMPTIONS = ["oracle: native Python operators applied to the same symbolic leaves (symx proxies implement Python int semantics)"]

# leaves of this-family trees
L_THIS = [("this", "a"), ("item", "b"), ("up", "c"), ("const", 3), ("const", -2), ("const", 0), ("const", True),
          ("func", "len_", "lst"), ("func", "abs_", "a")]
L_SMALL = [("this", "a"), ("item", "b"), ("const", 3)]
L_OBJ = [("obj",), ("const", 5), ("const", -1)]
L_STR = [("this", "s"), ("const", "x"), ("const", "")]
L_BYT = [("this", "d"), ("const", b"\x00z")]
STR_OPS = ["+", "==", "!=", "<", ">=", "*", "%"]


def J(t):
    if isinstance(t, tuple):
        return [J(x) for x in t]
    if isinstance(t, bytes):
        return {"hex": t.hex()}
    return t


def U(t):
    if isinstance(t, list):
        return tuple(U(x) for x in t)
    if isinstance(t, dict):
        return bytes.fromhex(t["hex"])
    return t


def spell(t):
    k = t[0]
    if k == "this":
        return "this.%s" % t[1]
    if k == "item":
        return "this[%r]" % t[1]
    if k == "up":
        return "this._.%s" % t[1]
    if k == "obj":
        return "obj_"
    if k == "const":
        return repr(t[1])
    if k == "func":
        return "%s(this.%s)" % (t[1], t[2])
    if k == "fn":
        return "%s(%s)" % (t[1], spell(t[2]))
    if k == "un":
        return "(%s%s)" % (t[1], spell(t[2]))
    if k == "bin":
        return "(%s %s %s)" % (spell(t[2]), t[1], spell(t[3]))
    raise ValueError(t)


def is_const(t):
    return t[0] == "const"


def has_placeholder(t):
    if t[0] in ("this", "item", "up", "obj", "func"):
        return True
    if t[0] in ("un", "fn"):
        return has_placeholder(t[2])
    if t[0] == "bin":
        return has_placeholder(t[2]) or has_placeholder(t[3])
    return False


def ops_ok(t):
    """every operator node must have a placeholder beneath it (otherwise Python evaluates that
    node by itself, which is not construct's business); no negative constant exponents
    (float results from symbolic bases are outside the bounds); no str-constant % expr
    (str.__mod__ accepts any object, so such an expression cannot even be built)"""
    k = t[0]
    if k in ("un", "fn"):
        return has_placeholder(t[2]) and ops_ok(t[2])
    if k == "bin":
        if not has_placeholder(t):
            return False
        for x in (t[2], t[3]):
            if x[0] in ("un", "bin") and not (has_placeholder(x) and ops_ok(x)):
                return False
        if t[1] == "**" and is_const(t[3]) and isinstance(t[3][1], int) and t[3][1] < 0:
            return False
        if t[1] == "%" and is_const(t[2]) and isinstance(t[2][1], (str, bytes)):
            return False
        if t[1] in ("//", "%", "**", "<<", ">>", "&", "|", "^") and (has_truediv(t[2]) or has_truediv(t[3])):
            return False          # float // x, float % x, float ** x: no model (outside the bounds)
    return True


def has_truediv(t):
    if t[0] == "bin":
        return t[1] == "/" or has_truediv(t[2]) or has_truediv(t[3])
    if t[0] in ("un", "fn"):
        return has_truediv(t[2])
    return False


def trees(tier, seed):
    out = []
    rnd = random.Random(seed * 7919 + 11)
    # depth 0/1 over all leaves
    for l in L_THIS:
        if has_placeholder(l):
            out.append(l)
    for op in UN:
        for l in L_THIS:
            if has_placeholder(l):
                out.append(("un", op, l))
    for op in BIN:
        for a in L_THIS:
            for b in L_THIS:
                t = ("bin", op, a, b)
                if has_placeholder(t):
                    out.append(t)
    for op in BIN:
        for a in L_OBJ:
            for b in L_OBJ:
                t = ("bin", op, a, b)
                if has_placeholder(t):
                    out.append(t)
    for op in UN:
        out.append(("un", op, ("obj",)))
    # strings / bytes constants
    for op in STR_OPS:
        for a in L_STR:
            for b in L_STR + [("const", 2)]:
                t = ("bin", op, a, b)
                if has_placeholder(t) and (op in ("*",) or b != ("const", 2)) and not (op == "*" and b[0] != "const"):
                    out.append(t)
        for a in L_BYT:
            for b in L_BYT:
                t = ("bin", op, a, b)
                if has_placeholder(t) and op not in ("*", "%"):
                    out.append(t)
    # depth 2 with a unary operator somewhere
    for u in UN:
        for a in L_SMALL:
            for u2 in UN:
                out.append(("un", u, ("un", u2, a)))
            for op in BIN:
                for b in L_SMALL:
                    if has_placeholder(a) or has_placeholder(b):
                        out.append(("un", u, ("bin", op, a, b)))
                        out.append(("bin", op, ("un", u, a), b)) if has_placeholder(a) else None
                        out.append(("bin", op, a, ("un", u, b))) if has_placeholder(b) else None
    # helper functions applied to operator trees (operands that are themselves parenthesised), and nested inside operators
    A, B3 = ("this", "a"), ("item", "b")
    for inner in (("bin", "*", ("bin", "-", A, ("const", 1)), ("const", 2)), ("bin", "*", ("bin", "-", A, ("const", 1)), ("bin", "+", B3, ("const", 2))),
                  ("bin", "-", ("const", 3), ("bin", "*", A, B3)), ("un", "-", ("bin", "+", A, B3)), ("bin", "+", ("un", "-", A), ("un", "~", B3)), ("bin", "-", A, B3)):
        out.append(("fn", "abs_", inner))
        out.append(("bin", "+", ("fn", "abs_", inner), ("const", 1)))
        out.append(("bin", "*", ("const", 2), ("fn", "abs_", inner)))
        out.append(("un", "-", ("fn", "abs_", inner)))
    # chains of the same operator with constants of different kinds (nothing may be folded across them)
    for c1, c2 in ((-1, "ab"), (2, "ab"), (0, "x"), (-1, b"\x00z"), (3, -1), (2, True)):
        out.append(("bin", "*", ("bin", "*", A, ("const", c1)), ("const", c2)))
        out.append(("bin", "*", ("const", c2), ("bin", "*", ("const", c1), A)))
    for c1, c2 in ((1, 2), (-1, 255), (True, 3)):
        for op in ("+", "&", "|", "^"):
            out.append(("bin", op, ("bin", op, A, ("const", c1)), ("const", c2)))
    # binary over binary: seeded sample
    n = 480 if tier == "quick" else 6000
    for _ in range(n):
        op1, op2 = rnd.choice(BIN), rnd.choice(BIN)
        a, b, c = rnd.choice(L_SMALL), rnd.choice(L_SMALL), rnd.choice(L_SMALL)
        t = ("bin", op1, ("bin", op2, a, b), c) if rnd.random() < 0.5 else ("bin", op1, a, ("bin", op2, b, c))
        if has_placeholder(t):
            out.append(t)
    if tier == "thorough":
        def rt(d):
            if d == 0:
                return rnd.choice(L_SMALL)
            if rnd.random() < 0.3:
                return ("un", rnd.choice(UN), rt(d - 1))
            return ("bin", rnd.choice(BIN), rt(d - 1), rt(rnd.randrange(d)))
        for _ in range(3000):
            t = rt(3)
            if has_placeholder(t):
                out.append(t)
    seen, uniq = set(), []
    for t in out:
        if t is None or not ops_ok(t):
            continue
        s = spell(t)
        if s not in seen:
            seen.add(s)
            uniq.append(t)
    return uniq


def instances(tier, seed):
    ts = trees(tier, seed)
    out = []
    for i in range(0, len(ts), GROUP):
        grp = ts[i:i + GROUP]
        out.append(dict(name="trees %04d-%04d  %s .. %s" % (i, i + len(grp) - 1, spell(grp[0]), spell(grp[-1])),
                        params=dict(trees=[J(t) for t in grp], tier=tier), expect=["ok"]))
    return out


# ---------------------------------------------------------------------------------------------
def build_expr(C, t):
    k = t[0]
    if k == "this":
        return getattr(C.this, t[1])
    if k == "item":
        return C.this[t[1]]
    if k == "up":
        return getattr(C.this._, t[1])
    if k == "obj":
        return C.obj_
    if k == "const":
        return t[1]
    if k == "func":
        return getattr(C, t[1])(getattr(C.this, t[2]))
    if k == "fn":
        return getattr(C, t[1])(build_expr(C, t[2]))
    if k == "un":
        return UNF_EXPR[t[1]](build_expr(C, t[2]))
    if k == "bin":
        return OPF[t[1]](build_expr(C, t[2]), build_expr(C, t[3]))
    raise ValueError(t)


UNF_EXPR = {"-": operator.neg, "+": operator.pos, "~": operator.invert}
FUNCS = {"len_": len, "sum_": sum, "min_": min, "max_": max, "abs_": abs}


def native(t, env):
    k = t[0]
    if k in ("this", "item"):
        return env[t[1]]
    if k == "up":
        return env["_"][t[1]]
    if k == "obj":
        return env["__obj__"]
    if k == "const":
        return t[1]
    if k == "func":
        return FUNCS[t[1]](env[t[2]])
    if k == "fn":
        return FUNCS[t[1]](native(t[2], env))
    if k == "un":
        return UNF[t[1]](native(t[2], env))
    if k == "bin":
        return OPF[t[1]](native(t[2], env), native(t[3], env))
    raise ValueError(t)


def guards(ctx, t, env):
    """assumptions that keep shifts / powers inside the stated bounds (depend on operand values)"""
    k = t[0]
    if k in ("un", "fn"):
        guards(ctx, t[2], env)
    elif k == "bin":
        guards(ctx, t[2], env)
        guards(ctx, t[3], env)
        if t[1] == "*":
            for x, y in ((t[2], t[3]), (t[3], t[2])):
                if is_const(x) and isinstance(x[1], (str, bytes)) and not is_const(y):
                    try:
                        r = native(y, env)
                    except Exception:
                        return
                    if type(r).__name__ in ("SymInt",):
                        ctx.assume(api.and_terms([r >= -3, r <= 4]))          # repetition counts: a fork per value
        if t[1] in ("<<", ">>", "**") and not is_const(t[3]):
            try:
                r = native(t[3], env)
            except Exception:
                return
            if type(r).__name__ in ("SymInt",):
                lo, hi = (-1, 6) if t[1] != "**" else (0, 3)
                ctx.assume(api.and_terms([r >= lo, r <= hi]))
        if t[1] == "**" and is_const(t[3]) and isinstance(t[3][1], int) and t[3][1] < 0:
            # negative constant exponent: float result; keep the base away from zero-division only via outcome comparison
            pass


def same_outcome(ctx, r1, r2):
    if r1.ok != r2.ok:
        return False
    if not r1.ok:
        return type(r1.exc).__name__ == type(r2.exc).__name__
    a, b = r1.value, r2.value
    if isinstance(a, (str, bytes)) or isinstance(b, (str, bytes)):
        return type(a) is type(b) and a == b
    return ctx.eq(a, b)


def harness(ctx, C, p):
    R = 256 if p["tier"] == "quick" else 65536
    which = ctx.concretize(ctx.int("tree", 0, len(p["trees"]) - 1))
    t = U(p["trees"][which])
    a, b, c, o = ctx.int("a", -R, R), ctx.int("b", -R, R), ctx.int("c", -R, R), ctx.int("obj", -R, R)
    env = {"a": a, "b": b, "lst": [a, b, c], "s": "ab", "d": b"\x00y", "_": {"c": c}, "__obj__": o}
    guards(ctx, t, env)
    text = spell(t)
    expr = build_expr(C, t)
    context = C.Container(a=a, b=b, lst=[a, b, c], s="ab", d=b"\x00y")
    context["_"] = C.Container(c=c)
    uses_obj = "obj_" in text
    arg = o if uses_obj else context
    r_impl = api.outcome(lambda: expr(arg) if callable(expr) else expr)
    r_nat = api.outcome(native, t, env)
    ctx.check("%s evaluates like the native operator tree" % text, same_outcome(ctx, r_impl, r_nat))
    # repr, evaluated with the placeholders bound (this is how generated code uses it)
    rp = repr(expr)
    ns = dict(this=context, obj_=o, list_=[a, b, c], len_=len, sum_=sum, min_=min, max_=max, abs_=abs)
    try:
        code = compile(rp, "<repr>", "eval")
    except SyntaxError:
        ctx.check("repr(%s) = %r is a Python expression" % (text, rp), False)
        return "ok"
    r_rep = api.outcome(lambda: eval(code, dict(ns)))
    ctx.check("repr(%s) = %r denotes the same function" % (text, rp), same_outcome(ctx, r_impl, r_rep))
    if not uses_obj and ("_" in text.replace("obj_", "").replace("len_", "").replace("sum_", "").replace("min_", "").replace("max_", "").replace("abs_", "") or "lst" in text):
        # the same expression object evaluated again on the SAME context object after the intermediate containers of its
        # paths were re-bound: an expression is a function of the context's current content (no memo of earlier lookups)
        c2 = ctx.int("c2", -R, R)
        env2 = dict(env, lst=[c2, a, b], **{"_": {"c": c2}})
        guards(ctx, t, env2)
        context["_"] = C.Container(c=c2)
        context["lst"] = [c2, a, b]
        r2 = api.outcome(lambda: expr(context) if callable(expr) else expr)
        ctx.check("%s evaluated again after its intermediate containers were re-bound follows the new content" % text, same_outcome(ctx, r2, api.outcome(native, t, env2)))
    return "ok"
