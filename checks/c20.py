"""C20 -- result containers and display helpers are faithful.

Programs: container shapes (key alphabet with public, private, method-shadowing and non-string keys;
nested containers and lists), operation sequences over set / delete / update / copy / deepcopy / pickle,
search patterns (enumerated).  Symbolic: every leaf value AND the presence of every entry (which
entries exist is a solver choice), so equality is checked against the plain-dict oracle for all
combinations at once.  Oracle: plain dict / list semantics on the public entries.
Hex helpers: hexundump(hexdump(data, n), n) == data with every data byte symbolic.
"""
import copy
import itertools
import pickle
from symx import api
from symx.values import SymInt, SymBool
from .common import mk

PROPERTY = "C20"
LEVEL = "model_checking"
INSTANCE_BUDGET_S = {"quick": 90, "thorough": 600}
EXHAUSTIVE = {"quick": False, "thorough": False}
KEYS = ["a", "b", "_p", "_", "keys", "items", "__x", 1]
SHADOWED = ["get", "pop", "update", "values", "copy", "clear", "setdefault", "popitem", "fromkeys", "search", "search_all", "move_to_end"]
BOUNDS = {"quick": dict(keys=KEYS, shadowed_method_names=SHADOWED, entries="<= 3 per level (all 3-subsets of the key alphabet; each shadowed method name paired with one plain key), depth <= 2, nested lists", operations="all sequences of length <= 2 over 6 operations, seeded 150 of length 3",
                        hex="data length 0..3 symbolic bytes x line sizes 1, 2, 3, 16"),
          "thorough": dict(keys=KEYS, entries="<= 4 per level", operations="all sequences of length <= 3", hex="data length 0..5 x line sizes 1, 2, 3, 8, 16")}
OUTSIDE = ["numpy values (module absent)", "hex dumps of >= 64 KiB with more than a 3-byte symbolic window", "__str__ pretty printing"]
ASSUMPTIONS = ["pickle round-trips run for real on containers with concrete leaves (symbolic leaves are not picklable)"]


def instances(tier, seed):
    import random
    rnd = random.Random(seed * 97 + 13)
    out = []
    subsets = [list(c) for c in itertools.combinations(KEYS, 3)] + [list(c) for c in itertools.combinations(KEYS, 2)]
    for ks in subsets:
        out.append(dict(name="eq keys=%r" % (ks,), params=dict(kind="eq", keys=ks)))
    for m in SHADOWED:      # every public dict / Container method name as an entry key (the key alphabet has only two of them)
        out.append(dict(name="eq keys=%r" % ([m, "a"],), params=dict(kind="eq", keys=[m, "a"])))
    for ks in [["a", "b"], ["a", "_p"], ["keys", 1], ["a", "keys"]]:
        out.append(dict(name="eq-nested keys=%r" % (ks,), params=dict(kind="eq-nested", keys=ks)))
    ops = ["set", "del", "update", "copy", "deepcopy", "pickle", "setattr", "pop"]
    seqs = [[a] for a in ops] + [[a, b] for a in ops for b in ops]
    tri = [[a, b, c] for a in ops for b in ops for c in ops]
    rnd.shuffle(tri)
    seqs += tri[:150] if tier == "quick" else tri
    for sq in seqs:
        out.append(dict(name="ops %s" % ",".join(sq), params=dict(kind="ops", ops=sq)))
    for k in ("copy", "deepcopy", "pickle"):
        out.append(dict(name="independence %s" % k, params=dict(kind="indep", how=k)))
    out.append(dict(name="listcontainer", params=dict(kind="list")))
    for pat in ("a", "^b", "x$", ".*", "_p", "nomatch", "a|b", "[ab]", "k.y"):
        out.append(dict(name="search %r" % pat, params=dict(kind="search", pat=pat)))
    for pat in ("b", "plain", ".*", "kxy|tup", "a", "nomatch"):
        out.append(dict(name="search, mixed entries %r" % pat, params=dict(kind="search", pat=pat, mixed=True)))
    for n in ((0, 1, 2, 3) if tier == "quick" else (0, 1, 2, 3, 4, 5)):
        for ls in ((1, 2, 3, 16) if tier == "quick" else (1, 2, 3, 8, 16)):
            out.append(dict(name="hex n=%d linesize=%d" % (n, ls), params=dict(kind="hex", n=n, ls=ls)))
    for big, ls in ((0x10000 + 6, 16), (0x10000 + 70, 64)) + (((0x10000 + 4, 1),) if tier != "quick" else ()):
        out.append(dict(name="hex n=%d (64 KiB boundary crossed) linesize=%d, 3-byte symbolic window beyond 0x10000" % (big, ls), params=dict(kind="hex", big=big, ls=ls, n=0)))
    return out


def pub(v):
    """public view: nested plain dict / list without underscore-prefixed entries"""
    if isinstance(v, dict):
        return {k: pub(x) for k, x in dict.items(v) if not (isinstance(k, str) and k.startswith("_"))}
    if isinstance(v, (list, tuple)):
        return [pub(x) for x in v]
    return v


def build(ctx, C, name, keys, nested=False):
    """a Container whose entries exist or not by solver choice, with symbolic leaves; returns (container, model list of (k, v))"""
    c = C.Container()
    model = []
    for k in keys:
        if ctx.fork(ctx.bool("%s.has.%s" % (name, k))):
            if nested and k in ("a", "keys"):
                inner = C.Container()
                im = []
                for k2 in ("b", "_q"):
                    if ctx.fork(ctx.bool("%s.%s.has.%s" % (name, k, k2))):
                        v = ctx.int("%s.%s.%s" % (name, k, k2), 0, 3)
                        inner[k2] = v
                        im.append((k2, v))
                lst = C.ListContainer([ctx.int("%s.%s.l0" % (name, k), 0, 3), C.Container(z=ctx.int("%s.%s.lz" % (name, k), 0, 3))])
                inner["lst"] = lst
                c[k] = inner
                model.append((k, inner))
            else:
                if k in ("b", "keys", 1) and ctx.fork(ctx.bool("%s.none.%s" % (name, k))):
                    v = None            # an entry whose value is None is still an entry
                elif k in SHADOWED:
                    v = ctx.choice("%s.%s" % (name, k), [0, 1])      # concrete (forked): a library that calls the entry instead of the method raises a plain TypeError
                else:
                    v = ctx.int("%s.%s" % (name, k), 0, 3)
                c[k] = v
                model.append((k, v))
    return c, model


def harness(ctx, C, p):
    return globals()["_" + p["kind"].replace("-", "_")](ctx, C, p)


def _truth(ctx, x):
    return x


def _eq(ctx, C, p, nested=False):
    keys = p["keys"]
    a, ma = build(ctx, C, "A", keys, nested)
    b, mb = build(ctx, C, "B", list(reversed(keys)), nested)       # other insertion order
    r0 = api.outcome(lambda: a == b)
    ctx.check("comparing two containers does not raise (got %s)" % ("ok" if r0.ok else type(r0.exc).__name__ + ": " + str(r0.exc)[:60]), r0.ok)
    r = r0.value
    want = ctx.eq(pub(a), pub(b))
    ctx.check("Container == agrees with plain-dict equality of the public entries (order-insensitive, private entries ignored)", _iff(ctx, r, want))
    ctx.check("!= is the negation of ==", (a != b) == (not r))
    ctx.check("== is symmetric", (b == a) == r)
    ctx.check("== is reflexive", (a == a) and (b == b))
    ctx.check("== with a plain dict of the same public entries", _iff(ctx, a == dict(pub(b)), want) if not nested else True)
    if not nested and len(keys) <= 2:
        c, mc = build(ctx, C, "Cc", keys, nested)
        if r and (b == c):
            ctx.check("== is transitive", a == c)
    return "ok"


def _eq_nested(ctx, C, p):
    return _eq(ctx, C, p, nested=True)


def _iff(ctx, pyb, term):
    if isinstance(term, bool):
        return pyb == term
    return term if pyb else api.not_term(term)


def _views(ctx, C, c, model, what):
    """attribute access, key access and iteration present the same entries in insertion order"""
    keys = [k for k, v in model]
    ctx.check("%s: iteration / keys() / len() present the entries in insertion order" % what,
              list(dict.keys(c)) == keys and list(iter(c)) == keys and len(c) == len(keys) and [k for k, v in dict.items(c)] == keys)
    terms = []
    for k, v in model:
        terms.append(ctx.eq(c[k], v))
        if isinstance(k, str) and k not in ("keys", "items"):
            got = api.outcome(getattr, c, k)
            ctx.check("%s: attribute access to entry %r works" % (what, k), got.ok)
            terms.append(ctx.eq(got.value, v))
        if isinstance(k, str) and k in ("keys", "items"):
            got = api.outcome(getattr, c, k)
            ctx.check("%s: an entry named like a method is reachable as attribute too" % what, got.ok)
            terms.append(ctx.eq(got.value, v))
    ctx.check("%s: key access and attribute access return the entry values" % what, api.and_terms(terms))


def _ops(ctx, C, p):
    c = C.Container()
    model = []
    names = ["a", "_p", "keys", "b", "items"]
    for i, k in enumerate(names[:2]):
        v = ctx.int("init.%s" % k, 0, 9)
        c[k] = v
        model.append((k, v))
    for step, op in enumerate(p["ops"]):
        tag = "step %d %s" % (step, op)
        if op == "set":
            k = names[(step * 2 + 2) % 5]
            v = ctx.int("v%d" % step, 0, 9)
            c[k] = v
            model = [(kk, (v if kk == k else vv)) for kk, vv in model] if k in [m[0] for m in model] else model + [(k, v)]
        elif op == "setattr":
            k = names[(step * 2 + 3) % 5]
            v = ctx.int("v%d" % step, 0, 9)
            setattr(c, k, v)
            model = [(kk, (v if kk == k else vv)) for kk, vv in model] if k in [m[0] for m in model] else model + [(k, v)]
        elif op == "del":
            if model:
                k = model[0][0]
                del c[k]
                model = model[1:]
        elif op == "pop":
            if model:
                k, v = model[-1]
                got = c.pop(k)
                ctx.check("%s: pop returns the entry" % tag, ctx.eq(got, v))
                model = model[:-1]
        elif op == "update":
            v1, v2 = ctx.int("u%d.1" % step, 0, 9), ctx.int("u%d.2" % step, 0, 9)
            upd = [("b", v1), ("zz", v2)]
            c.update(upd)
            for k, v in upd:
                model = [(kk, (v if kk == k else vv)) for kk, vv in model] if k in [m[0] for m in model] else model + [(k, v)]
        elif op == "copy":
            c2 = copy.copy(c) if step % 2 else c.copy()
            ctx.check("%s: the copy is a Container equal to the original" % tag, type(c2).__name__ == "Container" and c2 == c and c2 is not c)
            c = c2
        elif op == "deepcopy":
            c2 = copy.deepcopy(c)
            ctx.check("%s: the deep copy is a Container equal to the original" % tag, type(c2).__name__ == "Container" and c2 == c and c2 is not c)
            c = c2
        elif op == "pickle":
            if ctx.symbolic:
                conc = C.Container()
                for k, v in model:
                    conc[k] = ctx.concretize(v) if isinstance(v, (SymInt, SymBool)) else v
                c = conc
                model = [(k, c[k]) for k, v in model]
            rp = api.outcome(lambda: pickle.loads(pickle.dumps(c)))
            ctx.check("%s: the container pickles and unpickles (got %s)" % (tag, "ok" if rp.ok else type(rp.exc).__name__ + ": " + str(rp.exc)[:50]), rp.ok)
            c2 = rp.value
            ctx.check("%s: the unpickled object is a Container equal to the original" % tag, type(c2).__name__ == "Container" and c2 == c and c2 is not c)
            c = c2
        _views(ctx, C, c, model, tag)
    return "ok"


def _indep(ctx, C, p):
    how = p["how"]
    x, y, z = (ctx.int("x", 0, 9), ctx.int("y", 0, 9), ctx.int("z", 0, 9)) if how != "pickle" else (1, 2, 3)
    orig = C.Container(a=x, n=C.Container(b=y, l=C.ListContainer([z, C.Container(q=1, values=2)]), items=3, raw=[z, [1]], _d={"k": [y]}), _p=7, items=5, keys=6,
                       plain=[x, 2], _buf=bytearray(b"ab"), tup=(1, [2]))
    if how == "copy":
        c2 = copy.copy(orig)
    elif how == "deepcopy":
        c2 = copy.deepcopy(orig)
    else:
        rp = api.outcome(lambda: pickle.loads(pickle.dumps(orig)))
        ctx.check("a container whose keys shadow method names pickles and unpickles (got %s)" % ("ok" if rp.ok else type(rp.exc).__name__ + ": " + str(rp.exc)[:50]), rp.ok)
        c2 = rp.value
    ctx.check("the copy equals the original", c2 == orig)
    ctx.check("private entries survive the copy", "_p" in c2 and c2["_p"] == 7)
    c2["a"] = 100
    c2["new"] = 1
    ctx.check("top-level changes of the copy do not reach the original", "new" not in orig and ctx.fork(ctx.eq(orig["a"], x)))
    if how in ("deepcopy", "pickle"):
        ctx.check("nested containers are copies, not the same objects", c2["n"] is not orig["n"] and c2["n"]["l"] is not orig["n"]["l"] and c2["n"]["l"][1] is not orig["n"]["l"][1])
        c2["n"]["b"] = 200
        c2["n"]["l"].append(5)
        c2["n"]["l"][1]["q"] = 9
        ctx.check("changes at any depth of the copy do not reach the original",
                  ctx.fork(ctx.eq(orig["n"]["b"], y)) and len(orig["n"]["l"]) == 2 and orig["n"]["l"][1]["q"] == 1)
        ctx.check("nested values are of the container types", type(c2["n"]).__name__ == "Container" and type(c2["n"]["l"]).__name__ == "ListContainer")
        # plain mutable values (list, dict, bytearray) held by a container, under public and private keys, at any depth
        ctx.check("plain lists, dicts and bytearrays are copied too",
                  c2["plain"] is not orig["plain"] and c2["_buf"] is not orig["_buf"] and c2["n"]["raw"] is not orig["n"]["raw"] and c2["n"]["raw"][1] is not orig["n"]["raw"][1]
                  and c2["n"]["_d"] is not orig["n"]["_d"] and c2["n"]["_d"]["k"] is not orig["n"]["_d"]["k"] and c2["tup"][1] is not orig["tup"][1])
        c2["plain"].append(9)
        c2["_buf"][0] = 0
        c2["n"]["raw"][1].append(9)
        c2["n"]["_d"]["k"].append(9)
        c2["n"]["_d"]["new"] = 1
        ctx.check("changes inside plain values of the copy do not reach the original",
                  len(orig["plain"]) == 2 and bytes(orig["_buf"]) == b"ab" and orig["n"]["raw"][1] == [1] and len(orig["n"]["_d"]["k"]) == 1 and "new" not in orig["n"]["_d"])
        got = api.outcome(lambda: c2.n.l[1].q)
        ctx.check("attribute access works at every depth of the copy", got.ok and got.value == 9)
    return "ok"


def _list(ctx, C, p):
    vals = [ctx.int("e%d" % i, 0, 3) for i in range(3)]
    lc = C.ListContainer(vals)
    other = [ctx.int("o%d" % i, 0, 3) for i in range(3)]
    ctx.check("ListContainer equals the list of its elements", (lc == list(vals)) and (list(vals) == lc))
    r = (lc == other)
    ctx.check("ListContainer == list agrees with list equality", _iff(ctx, r, ctx.eq(vals, other)))
    ctx.check("a ListContainer of Containers compares recursively", C.ListContainer([C.Container(a=vals[0], _h=1)]) == [C.Container(a=vals[0], _h=2)])
    ctx.check("length differs => not equal", not (lc == vals[:2]))
    return "ok"


def _search(ctx, C, p):
    import re
    pat = p["pat"]
    v = [ctx.int("v%d" % i, 0, 2) for i in range(6)]
    c = C.Container(a=v[0], n=C.Container(b=v[1], kxy=v[2], l=C.ListContainer([C.Container(ax=v[3]), C.Container(b=v[4], _p=v[5])])), b=0, _p=1, x=C.ListContainer([]),
                    grid=C.ListContainer([C.ListContainer([C.Container(b=v[0], ax=7)]), C.ListContainer([]), C.ListContainer([C.ListContainer([C.Container(kxy=v[1])])])]))
    flat = [("a", v[0]), ("b", v[1]), ("kxy", v[2]), ("ax", v[3]), ("b", v[4]), ("_p", v[5]), ("b", 0), ("_p", 1), ("b", v[0]), ("ax", 7), ("kxy", v[1])]
    if p.get("mixed"):
        # what parse produces for Sequence(Byte, Struct(...)) -- scalars next to Containers in a list --, entries assigned by
        # the user under keys that are not text, and entries whose values are plain lists / dicts / tuples (Computed, update())
        c = C.Container()
        c["a"] = v[0]
        c[3] = v[1]
        c["seq"] = C.ListContainer([5, None, C.Container(b=v[2]), b"x", C.Container(kxy=v[3], b=v[4])])
        c[b"k"] = 1
        c["plainl"] = [7, 2]
        c["plaind"] = {"b": 9}
        c["b"] = v[5]
        c["tup"] = (1, 2)
        flat = [("a", v[0]), ("b", v[2]), ("kxy", v[3]), ("b", v[4]), ("plainl", [7, 2]), ("plaind", {"b": 9}), ("b", v[5]), ("tup", (1, 2))]
    rx = re.compile(pat)
    want = [val for k, val in flat if rx.match(k)]
    got_all = c.search_all(pat)
    ctx.check("search_all returns exactly the matching entries, in order (falsy values included)", len(got_all) == len(want) and ctx.fork(ctx.eq(list(got_all), want)) if want or got_all else True)
    got = c.search(pat)
    if want:
        ctx.check("search returns the first matching entry, even when its value is falsy", got is not None and ctx.fork(ctx.eq(got, want[0])))
    else:
        ctx.check("search returns None when nothing matches", got is None)
    return "ok"


def _hex(ctx, C, p):
    if p.get("big"):
        # >= 64 KiB: the second offset format.  All but a 3-byte window are fixed bytes; the window lies beyond offset 0x10000
        n = p["big"]
        pre = bytes((i * 7 + 3) & 0xFF for i in range(0x10000 + 1))
        post = bytes((i * 5 + 1) & 0xFF for i in range(n - len(pre) - 3))
        data = pre + ctx.bytes("window", 3) + post
    else:
        data = ctx.bytes("data", p["n"])
    text = C.hexdump(data, p["ls"])
    back = api.outcome(C.hexundump, text, p["ls"])
    ctx.check("hexundump accepts what hexdump produced (got %s)" % ("ok" if back.ok else type(back.exc).__name__), back.ok)
    ctx.check("hexundump inverts hexdump", ctx.eq(back.value, data))
    return "ok"
