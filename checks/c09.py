"""C09 -- look-ahead and alternatives leave the stream exactly where their contract says.

Programs: Peek / Pointer / Select / Optional / GreedyRange / Union over members drawn from fixed,
variable, validating and nested constructs, at start offsets 0..2 (enumerated).  Symbolic: all
stream bytes, Pointer offsets, build values.  Oracle (relational): the member constructs
themselves, run in isolation on the same symbolic stream from the same position, plus position
arithmetic.  Every byte is symbolic, so "the failure occurring at every possible byte inside an
alternative or element" is covered by the solver, not sampled.
"""
from symx import api
from symx.values import mkbytes
from .common import mk

PROPERTY = "C09"
LEVEL = "model_checking"
INSTANCE_BUDGET_S = {"quick": 90, "thorough": 600}
EXHAUSTIVE = {"quick": False, "thorough": False}
BOUNDS = {
    "quick": dict(stream="6 symbolic bytes, start offsets 0,1,2", members="7 member kinds; Select: all ordered pairs + 12 triples; Union: 10 member lists x parsefrom None/index/name",
                  pointer_offsets="symbolic in -7..8"),
    "thorough": dict(stream="9 symbolic bytes, start offsets 0..3", members="as quick, all ordered triples", pointer_offsets="symbolic in -10..11"),
}
OUTSIDE = ["members that succeed without consuming input inside GreedyRange (documented infinite loop)", "Union with parsefrom naming a missing member (documented KeyError)"]
ASSUMPTIONS = ["oracle = the member constructs of the same library run in isolation (relational check of the combinators)"]

MEMBERS = {
    "fixed": "Int16ub", "var": "VarInt", "const": "Const(b'\\x01')", "oneof": "OneOf(Byte, [1, 2, 255])",
    "nested": "Struct('a'/Byte, 'b'/VarInt)", "prefixed": "Prefixed(Byte, GreedyBytes)", "signed": "Int24sl",
    "prefsized": "Prefixed(Byte, Int16ub)",      # sizeof() answers 3, the bytes consumed depend on the prefix
}
UNIONS = [
    ["'a'/Int16ub", "'b'/Byte"], ["'a'/Byte", "'b'/VarInt", "'c'/Int24ub"], ["Const(b'\\x01')", "'a'/Byte", "'b'/Int16ub"],
    ["'a'/VarInt", "Byte", "'c'/Int16ul"], ["'a'/Struct('x'/Byte, 'y'/Byte)", "'b'/Int32ub"], ["'a'/Prefixed(Byte, GreedyBytes)", "'b'/Byte"],
    ["'a'/Byte", "'b'/Bytes(this.a & 3)"], ["'a'/Byte"], ["Byte", "'z'/Int16ub", "Int24ub"], ["'a'/Pass", "'b'/Int16sb"],
]


# alternatives that move the stream BACKWARDS before they fail (Pointer does not return on failure, Seek never does)
BACK = ["Struct('m'/Pointer(0, Const(b'\\x4f')), 'v'/Byte)", "Sequence(Seek(1), Const(b'Z'))", "Struct('p'/Pointer(1, OneOf(Byte, [1, 2])), 'v'/Int16ub)"]


def instances(tier, seed):
    out = []
    for bk in BACK:
        for s0 in (0, 2, 3):
            for alt in ("fixed", "const", "var"):
                out.append(dict(name="select %s,%s @%d" % (bk, alt, s0), params=dict(kind="select", ms=[bk, alt], opt=False, s=s0, n=6)))
            out.append(dict(name="optional %s @%d" % (bk, s0), params=dict(kind="select", ms=[bk], opt=True, s=s0, n=6)))
            out.append(dict(name="struct(optional %s, byte) @%d" % (bk, s0), params=dict(kind="select-next", m=bk, s=s0, n=6)))
    for s0 in (0, 1, 2):
        out.append(dict(name="union re-entered through LazyBound recursion @%d" % s0, params=dict(kind="union-rec", s=s0, n=6)))
    offs = [0, 1, 2] if tier == "quick" else [0, 1, 2, 3]
    n = 6 if tier == "quick" else 9
    names = sorted(MEMBERS)
    for s in offs:
        for m in names:
            out.append(dict(name="peek %s @%d" % (m, s), params=dict(kind="peek", m=m, s=s, n=n)))
            out.append(dict(name="pointer %s @%d" % (m, s), params=dict(kind="pointer", m=m, s=s, n=n)))
            out.append(dict(name="optional %s @%d" % (m, s), params=dict(kind="select", ms=[m], opt=True, s=s, n=n)))
            out.append(dict(name="greedyrange %s @%d" % (m, s), params=dict(kind="range", m=m, s=s, n=n)))
        for a in names:
            for b in names:
                if a != b:
                    out.append(dict(name="select %s,%s @%d" % (a, b, s), params=dict(kind="select", ms=[a, b], opt=False, s=s, n=n)))
    triples = [(a, b, c) for a in names for b in names for c in names if len({a, b, c}) == 3]
    if tier == "quick":
        triples = triples[::17]
    for t in triples:
        out.append(dict(name="select %s @1" % ",".join(t), params=dict(kind="select", ms=list(t), opt=False, s=1, n=n)))
    for i, u in enumerate(UNIONS):
        pfs = []
        for pf in [None, 0, len(u) - 1] + [x.split("/")[0].strip("'") for x in u if "/" in x][:2]:
            if pf not in pfs:
                pfs.append(pf)
        for pf in pfs:
            for s in (0, 2):
                out.append(dict(name="union#%d parsefrom=%r @%d" % (i, pf, s), params=dict(kind="union", u=u, pf=pf, s=s, n=n)))
    for i, u in enumerate(UNIONS):
        named = [x.split("/")[0].strip("'") for x in u if "/" in x]
        for pf in [None, len(u) - 1] + named[-1:]:
            if "this.a" in " ".join(u):
                continue
            out.append(dict(name="compiled union#%d parsefrom=%r @1" % (i, pf), params=dict(kind="union", u=u, pf=pf, s=1, n=n, compiled=True)))
    for m in names:
        out.append(dict(name="compiled greedyrange %s @1" % m, params=dict(kind="range", m=m, s=1, n=n, compiled=True)))
        out.append(dict(name="greedyrange discard=True %s @1" % m, params=dict(kind="range", m=m, s=1, n=n, discard=True)))
        out.append(dict(name="end-relative pointer inside a region that starts at a non-zero offset %s" % m, params=dict(kind="regionpointer-neg", m=m, n=n)))
        for s in (0, 2):
            out.append(dict(name="pointer on a side stream %s @%d" % (m, s), params=dict(kind="sidepointer", m=m, s=s, n=n)))
        out.append(dict(name="pointer to the outer stream from inside a region %s" % m, params=dict(kind="regionpointer", m=m, n=n)))
        out.append(dict(name="build pointer on a side stream %s" % m, params=dict(kind="bsidepointer", m=m)))
    for s0 in (0, 1):
        out.append(dict(name="greedyrange over elements sized by their index @%d" % s0, params=dict(kind="range-index", s=s0, n=n)))
    for u_i, pf in ((2, None), (2, 1), (0, None), (0, "b"), (3, None)):
        out.append(dict(name="union#%d parsefrom from the context = %r @1" % (u_i, pf), params=dict(kind="union", u=UNIONS[u_i], pf=pf, s=1, n=n, pfctx=True)))
    for shape in ("optional", "range", "select"):          # (Peek needs a seekable stream; streaming bit regions are not)
        for nb in (1, 2, 3):
            out.append(dict(name="look-ahead inside a streaming bit region: %s, %d bytes" % (shape, nb), params=dict(kind="bits-lookahead", shape=shape, nb=nb, n=nb)))
    for m in names:
        out.append(dict(name="build pointer %s" % m, params=dict(kind="bpointer", m=m)))
    out.append(dict(name="build peek", params=dict(kind="bpeek")))
    for a in names:
        for b in names:
            if a != b:
                out.append(dict(name="build select %s,%s" % (a, b), params=dict(kind="bselect", ms=[a, b])))
    out.append(dict(name="build select partial-writer", params=dict(kind="bselect2")))
    return out


def _at(ctx, data, s):
    st = ctx.stream(data)
    st.seek(s)
    return st


def _alone(ctx, C, m, data, s, kw=None):
    st = _at(ctx, data, s)
    r = api.outcome(mk(C, m).parse_stream, st, **(kw or {}))
    return r, st.tell()


def harness(ctx, C, p):
    kind = p["kind"]
    if kind in ("bpointer", "bpeek", "bselect", "bselect2", "bsidepointer"):
        return _build(ctx, C, p)
    data = ctx.bytes("data", p["n"])
    s = p.get("s", 0)
    if kind == "peek":
        m = MEMBERS[p["m"]]
        d = mk(C, "Peek(%s)" % m)
        st = _at(ctx, data, s)
        r = api.outcome(d.parse_stream, st)
        ctx.check("Peek never fails on member failure", r.ok)
        ctx.check("Peek restores the starting position", st.tell() == s)
        ra, _ = _alone(ctx, C, m, data, s)
        if ra.ok:
            ctx.check("Peek returns what the member alone returns", ctx.eq(r.value, ra.value))
            return "hit"
        ctx.check("Peek returns None when the member fails", r.value is None)
        return "miss"
    if kind == "pointer":
        m = MEMBERS[p["m"]]
        d = mk(C, "Pointer(this.off, %s)" % m)
        off = ctx.int("off", -p["n"] - 1, p["n"] + 2)
        st = _at(ctx, data, s)
        r = api.outcome(d.parse_stream, st, off=off)
        if off < 0:
            target = len(data) + off
            if target < 0:
                target = 0                    # seeking before the start from the end clamps to 0 (io.BytesIO)
        else:
            target = off
        target = ctx.concretize(target)
        ra, _ = _alone(ctx, C, m, data, target)
        ctx.check("Pointer succeeds iff the member parses at the target", r.ok == ra.ok)
        if r.ok:
            ctx.check("Pointer returns the member's value at the absolute / end-relative target", ctx.eq(r.value, ra.value))
            ctx.check("Pointer restores the starting position", st.tell() == s)
            return "ok"
        return "fail"
    if kind == "sidepointer":
        # Pointer(..., stream=<another stream>): the member is read from the side stream at the target, the side
        # stream gets its own position back, and the main stream only advances by the neighbours' bytes
        m = MEMBERS[p["m"]]
        d = mk(C, "Sequence(Byte, Pointer(this._params.off, %s, stream=lambda ctx: ctx._params.side), Byte)" % m)
        side_data = ctx.bytes("side", p["n"])
        off = ctx.int("off", -p["n"] - 1, p["n"] + 2)
        sp = ctx.choice("sidepos", [0, 3, p["n"]])
        main, side = _at(ctx, data, s), _at(ctx, side_data, sp)
        r = api.outcome(d.parse_stream, main, off=off, side=side)
        target = off if not (off < 0) else (len(side_data) + off if not (len(side_data) + off < 0) else 0)
        target = ctx.concretize(target)
        ra, _ = _alone(ctx, C, m, side_data, target)
        ctx.check("Pointer on a side stream succeeds iff the member parses there", r.ok == ra.ok)
        if not r.ok:
            return "fail"
        ctx.check("values: neighbours from the main stream, member from the side stream", ctx.eq(list(r.value), [data[s], ra.value, data[s + 1]]))
        ctx.check("the main stream advanced by the two neighbouring bytes only", main.tell() == s + 2)
        ctx.check("the side stream got its position back", side.tell() == sp)
        return "ok"
    if kind == "regionpointer":
        m = MEMBERS[p["m"]]
        d = mk(C, "Struct('magic'/Byte, 'body'/Prefixed(Byte, Struct('first'/Pointer(this._._params.off, %s, stream=this._._io), 'x'/Byte, 'y'/GreedyBytes)), 'after'/Tell, 'tail'/Byte)" % m)
        off = ctx.int("off", 0, p["n"])
        st = _at(ctx, data, 0)
        r = api.outcome(d.parse_stream, st, off=off)
        ln = data[1]
        fits = (ln >= 1) & (ln + 3 <= len(data))
        ra, _ = _alone(ctx, C, m, data, ctx.concretize(off))
        if not (fits & ra.ok):
            ctx.check("a region that does not fit or a failing target fails the parse", not r.ok)
            return "fail"
        ctx.check("parse succeeds", r.ok)
        ln = ctx.concretize(ln)
        v = r.value
        ctx.check("the pointed-to member is read from the outer stream at the absolute offset", ctx.eq(v.body.first, ra.value))
        ctx.check("the region's own fields are read from the region", api.and_terms([ctx.eq(v.body.x, data[2]), ctx.eq(v.body.y, mkbytes(list(data[3:2 + ln])))]))
        ctx.check("the outer stream continues right after the region", api.and_terms([ctx.eq(v.after, 2 + ln), ctx.eq(v.tail, data[2 + ln])]))
        return "ok"
    if kind == "range-index":
        # elements may legitimately be empty: GreedyRange(Bytes(this._index)) reads 0, 1, 2, ... bytes until the data runs out
        d = mk(C, "GreedyRange(Bytes(this._index))")
        st = _at(ctx, data, s)
        r = api.outcome(d.parse_stream, st)
        exp, pos, i = [], s, 0
        while pos + i <= len(data):
            exp.append(data[pos:pos + i])
            pos += i
            i += 1
        ctx.check("GreedyRange never fails on element failure", r.ok)
        ctx.check("elements of 0, 1, 2, ... bytes, the empty first one included", ctx.eq(list(r.value), exp))
        ctx.check("position is the end of the last successful element", st.tell() == pos)
        return "ok"
    if kind == "bits-lookahead":
        # a look-ahead that fails in the middle of a byte inside a streaming bit region is undone like anywhere else
        shape, nb = p["shape"], p["nb"]
        from .ref import bit_of
        bits = [bit_of(b, 7 - j) for b in data for j in range(8)]
        val = lambda lo, hi: sum(bits[lo + i] * 2 ** (hi - lo - 1 - i) for i in range(hi - lo))
        tot = 8 * nb
        if shape == "optional":
            d = mk(C, "BitStruct('a'/Nibble, 'b'/Optional(Octet), 'c'/GreedyRange(Bit))")
            r = api.outcome(d.parse, data)
            ctx.check("parse succeeds", r.ok)
            v = r.value
            if tot - 4 >= 8:
                ctx.check("the optional field is there", api.and_terms([ctx.eq(v.a, val(0, 4)), ctx.eq(v.b, val(4, 12)), ctx.eq(list(v.c), bits[12:])]))
            else:
                ctx.check("the optional field is absent and the bits it tried are read again", api.and_terms([ctx.eq(v.a, val(0, 4)), v.b is None, ctx.eq(list(v.c), bits[4:])]))
        elif shape == "peek":
            d = mk(C, "BitStruct('a'/Nibble, 'p'/Peek(BitsInteger(12)), 'c'/GreedyRange(Bit))")
            r = api.outcome(d.parse, data)
            ctx.check("parse succeeds", r.ok)
            v = r.value
            want_p = val(4, 16) if tot >= 16 else None
            ctx.check("Peek sees the bits or nothing, and consumes nothing either way", api.and_terms([ctx.eq(v.a, val(0, 4)), (v.p is None) if want_p is None else ctx.eq(v.p, want_p), ctx.eq(list(v.c), bits[4:])]))
        elif shape == "range":
            d = mk(C, "BitStruct('a'/BitsInteger(3), 'r'/GreedyRange(BitsInteger(5)), 'c'/GreedyRange(Bit))")
            r = api.outcome(d.parse, data)
            ctx.check("parse succeeds", r.ok)
            v = r.value
            k = (tot - 3) // 5
            ctx.check("whole 5-bit elements, then the leftover bits one by one", api.and_terms([ctx.eq(v.a, val(0, 3)), ctx.eq(list(v.r), [val(3 + 5 * i, 8 + 5 * i) for i in range(k)]), ctx.eq(list(v.c), bits[3 + 5 * k:])]))
        else:
            d = mk(C, "BitStruct('a'/Nibble, 's'/Select(BitsInteger(20), BitsInteger(12), BitsInteger(4)), 'c'/GreedyRange(Bit))")
            r = api.outcome(d.parse, data)
            ctx.check("parse succeeds", r.ok)
            v = r.value
            w = 20 if tot - 4 >= 20 else (12 if tot - 4 >= 12 else 4)
            ctx.check("the first alternative that fits is taken, after the longer ones were undone", api.and_terms([ctx.eq(v.a, val(0, 4)), ctx.eq(v.s, val(4, 4 + w)), ctx.eq(list(v.c), bits[4 + w:])]))
        return "ok"
    if kind == "regionpointer-neg":
        # a negative Pointer offset counts from the end of the stream the Pointer works on -- inside a region, from the region's end --
        # wherever the region lies in the outer stream
        m = MEMBERS[p["m"]]
        d = mk(C, "Struct('h'/Bytes(2), 'p'/Prefixed(Byte, Struct('x'/Byte, 'far'/Pointer(this._._params.off, %s), 'y'/GreedyBytes)), 'after'/Tell)" % m)
        off = ctx.int("off", -p["n"], -1)
        st = _at(ctx, data, 0)
        r = api.outcome(d.parse_stream, st, off=off)
        ln = data[2]
        fits = (ln >= 1) & (ln + 3 <= len(data))
        if not fits:
            ctx.check("a region that does not fit fails the parse", not r.ok)
            return "fail"
        ln = ctx.concretize(ln)
        region = data[3:3 + ln]
        target = len(region) + ctx.concretize(off)
        if target < 0:
            target = 0
        ra, _ = _alone(ctx, C, m, region, target)
        ctx.check("the Pointer succeeds iff the member parses at the end-relative target inside the region", r.ok == ra.ok)
        if not r.ok:
            return "fail"
        v = r.value
        ctx.check("the member is read at region end + offset", ctx.eq(v.p.far, ra.value))
        ctx.check("the region's own fields and the outer position are unaffected", api.and_terms([ctx.eq(v.p.x, region[0]), ctx.eq(v.p.y, mkbytes(list(region[1:]))), ctx.eq(v.after, 3 + ln)]))
        return "ok"
    if kind == "select":
        ms = [MEMBERS.get(x, x) for x in p["ms"]]
        src_ = "Optional(%s)" % ms[0] if p["opt"] else "Select(%s)" % ", ".join(ms)
        d = mk(C, src_)
        st = _at(ctx, data, s)
        r = api.outcome(d.parse_stream, st)
        for m in ms:
            ra, pos = _alone(ctx, C, m, data, s)
            if ra.ok:
                ctx.check("Select succeeds when an alternative does", r.ok)
                ctx.check("result is what the first succeeding alternative alone returns", ctx.eq(r.value, ra.value))
                ctx.check("position is the end of the first succeeding alternative", st.tell() == pos)
                return "alt"
        if p["opt"]:
            ctx.check("Optional returns None and leaves the position at the start", r.ok and r.value is None and st.tell() == s)
            return "none"
        ctx.check("no alternative matched: SelectError", (not r.ok) and isinstance(r.exc, C.SelectError))
        return "none"
    if kind == "select-next":
        # what follows an Optional that gave up starts where the Optional started
        d = mk(C, "Struct('o'/Optional(%s), 'next'/Byte)" % p["m"])
        st = _at(ctx, data, s)
        r = api.outcome(d.parse_stream, st)
        ra, pos = _alone(ctx, C, p["m"], data, s)
        start = pos if ra.ok else s
        if start >= len(data):
            return "short"
        ctx.check("parse succeeds", r.ok)
        ctx.check("the member after the Optional reads the byte at the Optional's end (or start, when it gave up)", ctx.eq(r.value.next, data[start]) and st.tell() == start + 1)
        return "alt" if ra.ok else "none"
    if kind == "union-rec":
        holder = []
        node = mk(C, "Union(0, 'tag'/Byte, 'pair'/Struct('tag'/Byte, 'sub'/If(this.tag == 1, LazyBound(lambda: NODE[0]))))", {"NODE": holder})
        holder.append(node)
        st = _at(ctx, data, s)
        r = api.outcome(node.parse_stream, st)
        if not r.ok:
            return "fail"
        ctx.check("the outer Union ends at the end of ITS selected member, however often the same Union object was re-entered below", st.tell() == s + 1)
        ctx.check("and returns its own members", ctx.eq(r.value.tag, data[s]) and ctx.eq(r.value.pair.tag, data[s]))
        return "ok"
    if kind == "range":
        m = MEMBERS[p["m"]]
        d = mk(C, "GreedyRange(%s%s)" % (m, ", discard=True" if p.get("discard") else ""))
        if p.get("compiled"):
            d = d.compile()
        st = _at(ctx, data, s)
        r = api.outcome(d.parse_stream, st)
        exp, pos = [], s
        while True:
            ra, p2 = _alone(ctx, C, m, data, pos)
            if not ra.ok:
                break
            exp.append(ra.value)
            pos = p2
        ctx.check("GreedyRange never fails on element failure", r.ok)
        if p.get("discard"):
            ctx.check("discard=True returns no elements", list(r.value) == [])
        else:
            ctx.check("elements are the successive member parses", ctx.eq(list(r.value), exp))
        ctx.check("position is the end of the last successful element", st.tell() == pos)
        return "n=%d" % len(exp)
    if kind == "union":
        u, pf = p["u"], p["pf"]
        d = mk(C, "Union(%s, %s)" % ("this._params.pf" if p.get("pfctx") else repr(pf), ", ".join(u)))
        if p.get("compiled"):
            d = d.compile()
        st = _at(ctx, data, s)
        r = api.outcome(d.parse_stream, st, **(dict(pf=pf) if p.get("pfctx") else {}))
        exp, ends, ok, env = {}, {}, True, {}
        for i, item in enumerate(u):
            name = item.split("/")[0].strip("'") if "/" in item else None
            body = item.split("/", 1)[1] if "/" in item else item
            if "this.a" in body:
                body = body.replace("this.a", "this._params.a")
            ra, pos = _alone(ctx, C, body, data, s, env)
            if not ra.ok:
                ok = False
                break
            if name:
                exp[name] = ra.value
                ends[name] = pos
                env[name] = ra.value
            ends[i] = pos
        if not ok:
            if not p.get("compiled"):      # compiled code does not check short reads (docs/compilation.rst): nothing claimed there
                ctx.check("a failing member fails the Union", not r.ok)
            return "fail"
        ctx.check("Union succeeds when every member parses from the start", r.ok)
        ctx.check("every member was parsed from the same start", ctx.eq(dict(r.value), exp))
        want = s if pf is None else ends[pf]
        ctx.check("final position is the start, or the end of the selected member", st.tell() == want)
        return "ok"
    raise ValueError(kind)


def _sample(m):
    return bytes([2, 1, 2, 0, 0, 0]) if m == MEMBERS["prefsized"] else bytes([1, 2, 1, 0, 0, 0])


def _build(ctx, C, p):
    kind = p["kind"]
    if kind == "bpointer":
        m = MEMBERS[p["m"]]
        d = mk(C, "Sequence(Byte, Pointer(this._params.off, %s), Byte)" % m)
        sample = mk(C, m).parse(_sample(m))
        inner = mk(C, m).build(sample)
        off = ctx.int("off", 0, 6)
        a, b = ctx.int("a", 0, 255), ctx.int("b", 0, 255)
        st = ctx.stream()
        r = api.outcome(d.build_stream, [a, sample, b], st, off=off)
        ctx.check("build with Pointer succeeds", r.ok)
        ref = ctx.stream()
        ref.write(mkbytes([a]))
        ref.seek(ctx.concretize(off))
        ref.write(inner)
        ref.seek(1)
        ref.write(mkbytes([b]))
        ctx.check("Pointer writes the member at the target and restores the position", ctx.eq(st.getvalue(), ref.getvalue()))
        ctx.check("stream position after build", st.tell() == 2)
        return "ok"
    if kind == "bsidepointer":
        m = MEMBERS[p["m"]]
        d = mk(C, "Sequence(Byte, Pointer(this._params.off, %s, stream=lambda ctx: ctx._params.side), Byte)" % m)
        sample = mk(C, m).parse(_sample(m))
        inner = mk(C, m).build(sample)
        off = ctx.int("off", 0, 6)
        a, b = ctx.int("a", 0, 255), ctx.int("b", 0, 255)
        junk = ctx.bytes("junk", 8)
        sp = ctx.choice("sidepos", [0, 5, 8])
        main, side = ctx.stream(), ctx.stream(junk)
        side.seek(sp)
        r = api.outcome(d.build_stream, [a, sample, b], main, off=off, side=side)
        ctx.check("build with a side-stream Pointer succeeds", r.ok)
        ctx.check("the main stream holds the neighbours only", ctx.eq(main.getvalue(), mkbytes([a, b])))
        ref = ctx.stream(junk)
        ref.seek(ctx.concretize(off))
        ref.write(inner)
        ctx.check("the member is written into the side stream at the target", ctx.eq(side.getvalue(), ref.getvalue()))
        ctx.check("the side stream got its position back", side.tell() == sp)
        return "ok"
    if kind == "bpeek":
        d = mk(C, "Sequence(Peek(Int16ub), Byte)")
        b = ctx.int("b", 0, 255)
        out = d.build([None, b])
        ctx.check("Peek builds nothing", ctx.eq(out, mkbytes([b])))
        return "ok"
    if kind == "bselect2":
        d = mk(C, "Sequence(Byte, Select(Struct('a'/Int32ub, 'b'/Int16ub, 'c'/Byte), Struct('a'/Byte)), Byte)")
        a, x, y = ctx.int("a", 0, 255), ctx.int("x", 0, 255), ctx.int("y", 0, 255)
        bb = ctx.int("b", 0, 65535)
        out = d.build([x, dict(a=a, b=bb), y])
        ctx.check("a failed alternative leaves no bytes behind", ctx.eq(out, mkbytes([x, a, y])))
        return "ok"
    ms = [MEMBERS[x] for x in p["ms"]]
    d = mk(C, "Sequence(Byte, Select(%s), Byte)" % ", ".join(ms))
    which = ctx.choice("which", [0, 1])
    sample = mk(C, ms[which]).parse(_sample(ms[which]))
    x, y = ctx.int("x", 0, 255), ctx.int("y", 0, 255)
    out = api.outcome(d.build, [x, sample, y])
    exp = None
    for m in ms:
        rb = api.outcome(mk(C, m).build, sample)
        if rb.ok:
            exp = rb.value
            break
    ctx.check("Select builds iff an alternative builds the value", out.ok == (exp is not None))
    if out.ok:
        ctx.check("Select emits exactly the bytes of the first alternative that builds", ctx.eq(out.value, mkbytes([x]) + exp + mkbytes([y])))
    return "ok"
