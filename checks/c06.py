"""C06 -- malformed, truncated or failing input is always reported as ConstructError.

Three families (programs enumerated, everything else symbolic):
 arbitrary  every byte string of length n fed to core-fragment constructs: the outcome is a value or
            a ConstructError; the exploration finishing is the termination argument (a path exceeding
            the step cap is reported, not dropped);
 truncation constructs without greedy/optional/look-ahead parts: for every value v (symbolic) and every
            k < len(build(v)) (all of them), parse(build(v)[:k]) raises StreamError;
 faults     a stream wrapper with a SYMBOLIC fault index k and fault kind in {read raises, write raises,
            seek raises, tell raises, short read}: parse and build end in StreamError (or, if the k-th
            operation is never reached, in the fault-free result); never a foreign exception.
"""
from symx import api
from . import common
from .common import src, mk, domain, T, J, generate, is_greedy

PROPERTY = "C06"
LEVEL = "model_checking"
INSTANCE_BUDGET_S = {"quick": 90, "thorough": 600}
EXHAUSTIVE = {"quick": False, "thorough": False}
BOUNDS = {
    "quick": dict(arbitrary="generated + curated constructs x every byte string of length 0,1,2,3,5", truncation="every strict prefix of every canonical encoding of the non-greedy generated constructs",
                  faults="fault index symbolic in 0..11, 5 kinds, parse and build, curated + leaf constructs"),
    "thorough": dict(arbitrary="lengths 0..8, 800 two-level composites", truncation="as quick, more composites", faults="fault index 0..23"),
}
OUTSIDE = ["Rebuffered (waits for more data from a blocking stream by design; an exhausted in-memory stream makes it wait forever)",
           "user callbacks and third-party codecs", "mis-parameterised constructs with documented foreign exceptions: Union(parsefrom=missing) KeyError, FocusedSeq unmatched selector UnboundLocalError",
           "bit-level streaming regions whose inner construct does not consume a multiple of 8 bits (Restreamed docstring: 'the stream will fail', 'can raise arbitrary exceptions')",
           "strings (stage 2)"]
ASSUMPTIONS = ["faulty stream model: checks/c06.FaultyStream over the stream model; a short read returns one byte fewer than requested and consumes what it returned"]

I8, I16l, VAR, FLAG = common.I8, common.I16l, common.VAR, common.FLAG
GB = ("greedybytes", 0)
CURATED = [
    ("raw", "Struct('a'/Byte, Terminated)"), ("raw", "Sequence(Terminated)"), ("raw", "GreedyRange(Int16ub)"), ("raw", "GreedyRange(VarInt)"),
    ("raw", "Struct('n'/Int8sb, 'd'/Bytes(this.n))"), ("raw", "Struct('n'/Int8sb, 'd'/Array(this.n, Byte))"), ("raw", "Struct('n'/Int16sl, 'd'/Padded(this.n, Byte))"),
    ("raw", "Struct('n'/Int8sb, 'd'/Aligned(this.n, Byte))"), ("raw", "Struct('n'/Int8sb, 'd'/FixedSized(this.n, GreedyBytes))"),
    ("raw", "Struct('n'/Int8sb, 'd'/BytesInteger(this.n))"), ("raw", "Bitwise(Struct('n'/Nibble, 'd'/BitsInteger(this.n), 'r'/BitsInteger(4 - this.n % 8 + 8)))"),
    ("raw", "Prefixed(Int64sb, GreedyBytes)"), ("raw", "Prefixed(Int64ub, GreedyBytes)"), ("raw", "Struct('n'/Int64ul, 'd'/Bytes(this.n))"),
    ("raw", "Struct('n'/Int64ub, 'd'/FixedSized(this.n, GreedyBytes))"), ("raw", "Struct('n'/Int64ub, Seek(this.n), 'b'/Byte)"), ("raw", "Struct('n'/Int64ub, 'p'/Pointer(this.n, Byte))"),
    ("raw", "Struct('n'/Int64ub, 'a'/Array(this.n, Pass))") if False else ("raw", "Struct('n'/Int64ub, 'd'/Padded(this.n, Byte))"), ("raw", "Prefixed(VarInt, GreedyRange(Int16ub))"), ("raw", "PrefixedArray(Int32sb, Byte)"), ("raw", "PrefixedArray(VarInt, VarInt)"),
    ("raw", "Struct('g'/Byte, 'r'/ProcessRotateLeft(3, this.g, GreedyBytes))"), ("raw", "Struct('a'/Int8sb, 'g'/Int8sb, 'r'/ProcessRotateLeft(this.a, this.g, Bytes(2)))"),
    ("raw", "Struct('k'/Byte, 'x'/ProcessXor(this.k, Bytes(this.k & 3)))"), ("raw", "Struct('m'/Int8sb, 'a'/Aligned(this.m, Byte))"), ("raw", "Struct('n'/Int8sb, 'p'/Padded(this.n, Byte))"),
    ("raw", "PrefixedArray(Int64ub, Byte)"), ("raw", "Struct('n'/Int64ub, 'a'/Array(this.n, Byte))"), ("raw", "Struct('n'/Int64sl, 'a'/Array(this.n, Int16ub))"),
    ("raw", "Struct('n'/Int64ub, 'a'/LazyArray(this.n, Byte))"), ("raw", "Struct('n'/BytesInteger(16), 'a'/Array(this.n, Byte))"), ("raw", "Struct('n'/Int64ub, 'a'/Array(this.n, Byte, discard=True))"),
    ("raw", "Struct('o'/Int8sb, 'p'/Pointer(this.o, Byte))"), ("raw", "Struct('o'/Int8ub, 'p'/Pointer(this.o, Int16ub), 'q'/Byte)"), ("raw", "Struct('o'/Int8sb, Seek(this.o), 'b'/Byte)"),
    ("raw", "Struct('o'/Int8sb, Seek(this.o, 1), 'b'/Byte)"), ("raw", "Struct('o'/Int8sb, Seek(this.o, 2), 'b'/Byte)"), ("raw", "Struct('w'/Byte, Seek(1, this.w))"),
    ("raw", "Struct('a'/Peek(Int16ub), 'b'/Byte)"), ("raw", "Union(0, 'a'/Int16ub, 'b'/Byte)"), ("raw", "Union('b', 'a'/Int16ub, 'b'/VarInt)"), ("raw", "Union(None, 'a'/Byte)"),
    ("raw", "Select(Int32ub, Int16ub, Byte)"), ("raw", "Optional(Int16ub)"), ("raw", "RepeatUntil(obj_ == 0, Byte)"), ("raw", "RepeatUntil(lambda x, lst, ctx: len(lst) > 2, VarInt)"),
    ("raw", "NullTerminated(GreedyBytes)"), ("raw", "NullTerminated(GreedyBytes, term=b'\\x00\\x00')"), ("raw", "NullTerminated(Int16ub, require=False)"), ("raw", "NullStripped(GreedyRange(Int16ub), pad=b'ab')"),
    ("raw", "RawCopy(Struct('a'/Byte, 'b'/VarInt))"), ("raw", "Struct('r'/RawCopy(Byte), 'c'/Checksum(Bytes(1), lambda d: d, this.r.data))"),
    ("raw", "OffsettedEnd(-2, GreedyBytes)"), ("raw", "Struct('h'/Byte, 'b'/OffsettedEnd(-1, GreedyRange(Int16ub)), 't'/Byte)"),
    ("raw", "Struct('k'/Byte, 'v'/Switch(this.k, {1: Int16ub, 2: VarInt}))"), ("raw", "Struct('k'/Byte, StopIf(this.k), 'v'/Byte)"), ("raw", "Struct('k'/Byte, Check(this.k != 3), 'e'/If(this.k == 4, Error))"),
    ("raw", "Const(b'MZ')"), ("raw", "Const(513, Int16ul)"), ("raw", "Enum(Byte, a=1)"), ("raw", "FlagsEnum(Int16ub, a=1, b=0x8000)"), ("raw", "Mapping(Byte, {'x': 0})"),
    ("raw", "OneOf(Byte, [1, 2])"), ("raw", "NoneOf(Int16sb, [-1])"), ("raw", "Hex(Int32ul)"), ("raw", "HexDump(Bytes(2))"), ("raw", "ExprValidator(Byte, obj_ > 3)"),
    ("raw", "ProcessXor(lambda ctx: ctx._params.get('k', 1), GreedyBytes)"), ("raw", "ProcessRotateLeft(3, 2, GreedyBytes)"), ("raw", "ByteSwapped(Int24ub)"), ("raw", "BitsSwapped(Bytes(2))"),
    ("raw", "Bitwise(Struct('a'/Bit, 'b'/Nibble, 'c'/BitsInteger(3, signed=True)))"), ("raw", "Bitwise(Aligned(8, Struct('a'/BitsInteger(3))))"), ("raw", "BitStruct('a'/Flag, Padding(7))"),
    ("raw", "Bitwise(GreedyRange(Octet))"), ("raw", "Bitwise(Array(lambda ctx: ctx._params.get('n', 1), Octet))"), ("raw", "Struct('b'/Bitwise(Bytewise(Int16ub)))"),
    ("raw", "Lazy(Int16ub)"), ("raw", "LazyStruct('a'/Byte, 'b'/VarInt, 'c'/Int16ub)"), ("raw", "LazyArray(2, VarInt)"), ("raw", "LazyBound(lambda: Int16ub)"),
    ("raw", "FocusedSeq('b', 'a'/Const(b'!'), 'b'/VarInt)"), ("raw", "Slicing(Array(3, Byte), 3, 0, 2, empty=0)"), ("raw", "Indexing(Array(3, Byte), 3, 1, empty=0)"),
    ("raw", "NamedTuple('t', 'a b', Struct('a'/Byte, 'b'/Byte))"), ("raw", "RestreamData(b'\\x01', Byte)"), ("raw", "Transformed(Bytes(2), lambda b: b, 2, lambda b: b, 2)"),
    ("raw", "Pickled") if False else ("raw", "Tell"), ("raw", "Index"), ("raw", "Pass"), ("raw", "Error"), ("raw", "Computed(7)"),
]

FAULT_TARGETS = [
    "Byte", "Int32ul", "VarInt", "ZigZag", "Flag", "Bytes(3)", "GreedyBytes", "Const(b'ab')", "Terminated", "Tell", "Int24sb",
    "Struct('a'/Byte, 'b'/Int16ub, 'c'/VarInt)", "Sequence(Byte, Terminated)", "Array(2, Int16ub)", "GreedyRange(Byte)", "RepeatUntil(obj_ == 0, Byte)",
    "PrefixedArray(Byte, Byte)", "Prefixed(Byte, GreedyBytes)", "FixedSized(3, GreedyBytes)", "NullTerminated(GreedyBytes)", "NullTerminated(GreedyBytes, term=b'\\x00\\x00')",
    "NullStripped(GreedyBytes)", "Padded(3, Byte)", "Aligned(4, Int16ub)", "Struct('a'/Peek(Byte), 'b'/Byte)", "Struct('p'/Pointer(1, Byte), 'b'/Byte)",
    "Union(0, 'a'/Int16ub, 'b'/Byte)", "Select(Int16ub, Byte)", "Optional(Int16ub)", "RawCopy(Int16ub)", "Struct('r'/RawCopy(Byte), 'c'/Checksum(Bytes(1), lambda d: d, this.r.data))",
    "OffsettedEnd(-1, GreedyBytes)", "Struct(Seek(1), 'b'/Byte)", "ByteSwapped(Int16ub)", "BitsSwapped(GreedyBytes)", "Bitwise(Struct('a'/Nibble, 'b'/Nibble))", "Bitwise(GreedyRange(Octet))",
    "ProcessXor(5, GreedyBytes)", "ProcessRotateLeft(1, 1, GreedyBytes)", "Lazy(Int16ub)", "LazyStruct('a'/Byte, 'b'/Int16ub)", "LazyArray(2, Byte)",
    "Struct('h'/Bytes(2), 'p'/Prefixed(Byte, Struct('t'/Tell, 'g'/GreedyBytes)))", "Struct('h'/Byte, 'f'/FixedSized(2, RawCopy(Byte)))", "Struct('h'/Byte, 'n'/NullTerminated(Struct('t'/Tell, 'g'/GreedyBytes)))",
    "Enum(Byte, a=1)", "FocusedSeq('b', 'a'/Byte, 'b'/Byte)", "Struct('k'/Byte, 'v'/Switch(this.k, {1: Int16ub}, default=Byte))", "Compressed(GreedyBytes, 'zlib')" if False else "Hex(Int16ub)",
]
FAULT_KINDS = ["read", "write", "seek", "tell", "short"]
RECOVERING = ("Select", "Optional", "GreedyRange", "Peek", "require=False")


class InjectedFault(OSError):
    pass


class FaultyStream:
    """stream whose k-th operation of a given kind fails (k symbolic)"""

    def __init__(self, ctx, inner, kind, k):
        self.ctx, self.inner, self.kind, self.k = ctx, inner, kind, k
        self.count = 0
        self.hit = False

    def _fault(self, op):
        if self.hit or (self.kind != op and not (self.kind == "short" and op == "read")):
            return False
        i = self.count
        self.count += 1
        if self.ctx.fork(self.k == i):
            self.hit = True
            return True
        return False

    def read(self, n=-1):
        if n is None:
            n = -1
        if self.kind == "short":
            # a short read returns at least one byte (an empty result is, by convention, end of stream)
            if self.ctx.fork(n >= 2) and self._fault("read"):
                return self.inner.read(n - 1)
            return self.inner.read(n)
        if self._fault("read"):
            raise InjectedFault("read failed")
        return self.inner.read(n)

    def write(self, data):
        if self._fault("write"):
            raise InjectedFault("write failed")
        return self.inner.write(data)

    def seek(self, off, whence=0):
        if self._fault("seek"):
            raise InjectedFault("seek failed")
        return self.inner.seek(off, whence)

    def tell(self):
        if self._fault("tell"):
            raise InjectedFault("tell failed")
        return self.inner.tell()

    def getvalue(self):
        return self.inner.getvalue()

    def close(self):
        pass


# lazy constructs skip fields instead of reading them: a truncated encoding must still be rejected at parse time
LAZY_TRUNC = ["LazyStruct('a'/Int16ub, 'b'/Bytes(2))", "LazyArray(2, Int16ub)", "Struct('a'/Lazy(Int32ub), 'b'/Byte)", "LazyStruct('n'/Byte, 'p'/Prefixed(Byte, Bytes(2)), 't'/Byte)",
              "LazyArray(2, Prefixed(Byte, Bytes(1)))", "Struct('h'/Byte, 'l'/LazyStruct('x'/Int24ub), 't'/Int16ub)", "Prefixed(Byte, LazyStruct('x'/Int16ub, 'y'/Byte))",
              "LazyStruct('a'/Byte, 'v'/VarInt, 'b'/Int16ub)", "Struct('l'/Lazy(Prefixed(Byte, Int16ub)), 't'/Byte)", "LazyStruct('a'/Padded(3, Byte), 'b'/Aligned(2, Byte))"]


def _truncatable(spec):
    bad = ("optional", "select", "greedybytes", "greedyrange", "nullstripped", "peek", "pointer", "xor", "default", "if", "switch", "ifthenelse", "arrayctx", "bytesctx")
    if any(x[0] in bad for x in common.walk(spec)):
        return False
    return not is_greedy(spec)


def instances(tier, seed):
    out, seen = [], set()
    specs = generate(tier, seed, depth2=40 if tier == "quick" else 800) + [T(J(x)) for x in CURATED]
    lens = [0, 1, 2, 3, 5] if tier == "quick" else list(range(0, 9))
    cur = set(src(T(J(x))) for x in CURATED)
    for s in specs:
        if src(s) in seen:
            continue
        seen.add(src(s))
        ls = (lens if (src(s) in cur or tier != "quick") else [1, 3, 5])
        if "Int64u" in src(s):
            ls = sorted(set(ls) | {8, 9})
        for n in ls:
            out.append(dict(name="arbitrary %d  %s" % (n, src(s)), params=dict(kind="arbitrary", spec=J(s), n=n)))
    for s in generate(tier, seed, depth2=60 if tier == "quick" else 600):
        if _truncatable(s):
            out.append(dict(name="truncation  %s" % src(s), params=dict(kind="truncation", spec=J(s), tier=tier), expect=["ok"]))
    for lz in LAZY_TRUNC:
        out.append(dict(name="truncation (lazy)  %s" % lz, params=dict(kind="lazytrunc", source=lz, n=6 if tier == "quick" else 8), expect=["ok"]))
    K = 11 if tier == "quick" else 23
    for t in FAULT_TARGETS:
        for kind in FAULT_KINDS:
            for op in ("parse", "build"):
                if (kind in ("read", "short") and op == "build" and "RawCopy" not in t) or (kind == "write" and op == "parse"):
                    continue
                out.append(dict(name="fault %s/%s  %s" % (kind, op, t), params=dict(kind="fault", source=t, fault=kind, op=op, K=K)))
    for t in ("GreedyRange(Lazy(Byte))", "GreedyRange(LazyStruct('a'/Byte))", "GreedyRange(LazyArray(2, Byte))", "GreedyRange(Byte)", "GreedyRange(Struct('a'/Lazy(Int16ub), 'b'/Byte))",
              "RepeatUntil(lambda x, lst, ctx: len(lst) > 300, Byte)", "GreedyRange(Prefixed(Byte, Lazy(Int16ub)))", "Prefixed(Byte, GreedyRange(LazyStruct('a'/Byte)))"):
        out.append(dict(name="terminates  %s" % t, params=dict(kind="terminates", source=t)))
    return out


def harness(ctx, C, p):
    kind = p["kind"]
    if kind == "terminates":
        d = mk(C, p["source"])
        data = ctx.bytes("data", 3)
        r = api.time_capped(d.parse, 3, data)
        ctx.check("parse of a 3-byte input terminates (3 s CPU cap)", r.ok or not isinstance(r.exc, api.NonTermination))
        if not r.ok:
            ctx.check("and fails only with ConstructError", isinstance(r.exc, C.ConstructError))
        return "ok"
    if kind == "arbitrary":
        spec = T(p["spec"])
        d = mk(C, src(spec))
        n = p["n"]
        # the instance has been used before, successfully or not (cut-off inputs included): what follows must not depend on it
        common.warmup(d, n, (bytes(n), bytes((i * 37 + 1) & 0xFF for i in range(n + 2)), bytes((i * 91 + 0x80) & 0xFF for i in range(max(0, n - 1))), b"\xff"))
        data = ctx.bytes("data", n)
        r = api.outcome(d.parse, data)
        if r.ok:
            return "accept"
        ctx.check("parse of arbitrary bytes raises only ConstructError (got %s: %s)" % (type(r.exc).__name__, str(r.exc)[:80]), isinstance(r.exc, C.ConstructError))
        return "reject"
    if kind == "truncation":
        spec = T(p["spec"])
        d = mk(C, src(spec))
        common.STRICT[0] = True
        try:
            v = domain(ctx, spec, "v", p["tier"])
        finally:
            common.STRICT[0] = False
        data = d.build(v)
        for k in range(len(data)):
            r = api.outcome(d.parse, data[:k])
            ctx.check("prefix of %d/%d bytes is rejected" % (k, len(data)), not r.ok)
            ctx.check("prefix of %d/%d bytes is rejected with StreamError (got %s)" % (k, len(data), type(r.exc).__name__), isinstance(r.exc, C.StreamError))
        return "ok"
    if kind == "lazytrunc":
        lazy = mk(C, p["source"])
        eager = mk(C, p["source"].replace("LazyStruct(", "Struct(").replace("LazyArray(", "Array(").replace("Lazy(", "("))
        data = ctx.bytes("data", p["n"])
        st = ctx.stream(data)
        r = api.outcome(eager.parse_stream, st)
        if not r.ok:
            return "eager-reject"
        end = st.tell()
        rl = api.outcome(lazy.parse, data[:end])
        ctx.check("the complete encoding is accepted by the lazy construct", rl.ok)
        for k in range(end):
            rk = api.outcome(lazy.parse, data[:k])
            ctx.check("prefix of %d/%d bytes is rejected by the lazy construct at parse time" % (k, end), not rk.ok)
            ctx.check("prefix of %d/%d bytes is rejected with StreamError (got %s)" % (k, end, type(rk.exc).__name__), isinstance(rk.exc, C.StreamError))
        return "ok"
    return _fault(ctx, C, p)


def _sample_value(ctx, C, d, source):
    """a buildable value for the fault targets: parse a fixed 8-byte sample with the fault-free construct"""
    return d.parse(bytes([2, 2, 0, 3, 0, 0, 1, 0]))


def _fault(ctx, C, p):
    source, kind, op = p["source"], p["fault"], p["op"]
    d = mk(C, source)
    k = ctx.int("k", 0, p["K"])
    recovering = any(r in source for r in RECOVERING)
    if op == "parse":
        data = ctx.bytes("data", 6)
        ref = api.outcome(d.parse_stream, ctx.stream(data))
        fs = FaultyStream(ctx, ctx.stream(data), kind, k)
        r = api.outcome(d.parse_stream, fs)
        if not r.ok:
            ctx.check("%s fault while parsing surfaces as ConstructError (got %s: %s)" % (kind, type(r.exc).__name__, str(r.exc)[:60]),
                      isinstance(r.exc, C.ConstructError))
            if fs.hit and ref.ok and not recovering:
                ctx.check("%s fault while parsing surfaces as StreamError (got %s)" % (kind, type(r.exc).__name__), isinstance(r.exc, C.StreamError))
            return "raised"
        if not fs.hit:
            ctx.check("no fault reached: same outcome as the fault-free run", ref.ok and _same(ctx, r.value, ref.value))
            return "not-reached"
        if not recovering and kind in ("read", "short"):
            ctx.check("a failed/short read does not yield a value silently", False)
        if not recovering:
            ctx.check("a %s fault that goes unreported must not change the result (silently wrong value)" % kind, ref.ok and _same(ctx, r.value, ref.value))
        return "recovered"
    # build
    try:
        v = _sample_value(ctx, C, mk(C, source), source)
    except Exception:
        v = None
    if callable(v):
        v = v()
    base = ctx.stream()
    ref = api.outcome(d.build_stream, v, base)
    if not ref.ok:
        return "unbuildable"
    fs = FaultyStream(ctx, ctx.stream(), kind, k)
    r = api.outcome(d.build_stream, v, fs)
    if not r.ok:
        ctx.check("%s fault while building surfaces as ConstructError (got %s: %s)" % (kind, type(r.exc).__name__, str(r.exc)[:60]),
                  isinstance(r.exc, C.ConstructError))
        if fs.hit and ref.ok:
            ctx.check("%s fault while building surfaces as StreamError (got %s)" % (kind, type(r.exc).__name__), isinstance(r.exc, C.StreamError))
        return "raised"
    if not fs.hit:
        ctx.check("no fault reached: same bytes as the fault-free run", ref.ok and ctx.eq(fs.getvalue(), base.getvalue()))
        return "not-reached"
    if kind == "write":
        ctx.check("a failed write does not go unnoticed", False)
    ctx.check("a %s fault that goes unreported must not change the bytes written" % kind, ctx.eq(fs.getvalue(), base.getvalue()))
    return "recovered"


def _same(ctx, a, b):
    if callable(a) and callable(b):
        return True
    try:
        return ctx.eq(a, b)
    except Exception:
        return True
