"""checks.common -- construct grammar (specs), source rendering, value domains.

A *spec* is a nested tuple describing a construct; it is JSON-able (instances carry it as
params), renders to construct source text (`src`), and has a symbolic value template
(`domain`).  Replay files therefore show readable construct expressions.

spec forms
  leaves      ("fmt", "Int16ul")               any public numeric singleton name
              ("bytesint", n, signed, swapped) BytesInteger
              ("bitsint", w, signed, swapped)  BitsInteger (inside bit regions)
              ("varint",) ("zigzag",) ("flag",) ("pass",)
              ("bytes", n)  ("bytesctx", key, mask)  Bytes(this.key & mask)
              ("greedybytes", L)               L = length used when a value is generated
              ("const", hexbytes)              Const(b"..")
              ("constv", value, sub)           Const(value, sub)
              ("computed", key) ("tell",) ("terminated",) ("error",)
  adapters    ("enum", sub, [[label, value]..]) ("flagsenum", sub, [[label, value]..])
              ("mapping", sub, [[obj, value]..])   ("hex", sub)
              ("oneof", sub, [values]) ("noneof", sub, [values])
              ("rebuildlen", sub, key)         Rebuild(sub, len_(this.key))
              ("default", sub, value)
  composites  ("struct", [[name, spec]..]) ("seq", [spec..]) ("focusedseq", name, [[name, spec]..])
              ("array", n, sub) ("arrayctx", key, mask, sub) ("greedyrange", sub, K) ("prefixedarray", cnt, sub, K)
              ("repeatuntil", stopvalue, sub, K)
  delimiters  ("prefixed", len, sub, includelength) ("fixedsized", n, sub)
              ("nullterminated", sub, termhex, include, consume, require) ("nullstripped", sub, padhex)
              ("padded", n, sub, pathex) ("aligned", m, sub, pathex)
  condition   ("if", key, sub) ("ifthenelse", key, a, b) ("switch", key, [[k, spec]..], default|None)
              ("select", [spec..]) ("optional", sub)
  transforms  ("bitwise", sub) ("bytewise", sub) ("byteswapped", sub) ("bitsswapped", sub)
              ("xor", keyhex|int, sub) ("rawcopy", sub) ("peek", sub) ("pointer", off, sub)
"""
import re

FMT = {}
for _n, _sz in (("8", 1), ("16", 2), ("32", 4), ("64", 8)):
    for _s in "us":
        for _e in "bln":
            FMT["Int%s%s%s" % (_n, _s, _e)] = (_sz, _s == "s", _e)
for _s in "us":
    for _e in "bln":
        FMT["Int24%s%s" % (_s, _e)] = (3, _s == "s", _e)
FMT.update(Byte=(1, False, "b"), Short=(2, False, "b"), Int=(4, False, "b"), Long=(8, False, "b"))
FLOATS = {}
for _n, _sz in (("16", 2), ("32", 4), ("64", 8)):
    for _e in "bln":
        FLOATS["Float%s%s" % (_n, _e)] = (_sz, _e)
FLOATS.update(Half=(2, "b"), Single=(4, "b"), Double=(8, "b"))


def name_info(name):
    """(size, signed, byteorder) of a public integer name, from the naming convention alone"""
    import sys
    size, signed, e = FMT[name]
    order = {"b": "big", "l": "little", "n": sys.byteorder}[e]
    return size, signed, order


def T(x):
    """lists -> tuples (specs read back from JSON)"""
    if isinstance(x, list):
        return tuple(T(i) for i in x)
    return x


def J(x):
    if isinstance(x, tuple):
        return [J(i) for i in x]
    if isinstance(x, bytes):
        return x.hex()
    return x


def _b(hexs):
    return repr(bytes.fromhex(hexs))


def src(s):
    """construct source text of a spec"""
    s = T(s)
    k = s[0]
    if k == "fmt":
        return s[1]
    if k == "float":
        return s[1]
    if k == "bytesint":
        return "BytesInteger(%d, signed=%r, swapped=%r)" % (s[1], s[2], s[3])
    if k == "bitsint":
        return "BitsInteger(%d, signed=%r, swapped=%r)" % (s[1], s[2], s[3])
    if k in ("varint", "zigzag", "flag", "pass", "tell", "terminated", "error"):
        return {"varint": "VarInt", "zigzag": "ZigZag", "flag": "Flag", "pass": "Pass", "tell": "Tell",
                "terminated": "Terminated", "error": "Error"}[k]
    if k == "bytes":
        return "Bytes(%d)" % s[1]
    if k == "bytesctx":
        return "Bytes(this.%s & %d)" % (s[1], s[2]) if s[2] is not None else "Bytes(this.%s)" % s[1]
    if k == "greedybytes":
        return "GreedyBytes"
    if k == "const":
        return "Const(%s)" % _b(s[1])
    if k == "constv":
        return "Const(%r, %s)" % (s[1], src(s[2]))
    if k == "computed":
        return "Computed(this.%s)" % s[1]
    if k == "enum":
        return "Enum(%s, %s)" % (src(s[1]), ", ".join("%s=%d" % (l, v) for l, v in s[2]))
    if k == "flagsenum":
        return "FlagsEnum(%s, %s)" % (src(s[1]), ", ".join("%s=%d" % (l, v) for l, v in s[2]))
    if k == "mapping":
        return "Mapping(%s, {%s})" % (src(s[1]), ", ".join("%r: %r" % (o, v) for o, v in s[2]))
    if k == "hex":
        return "Hex(%s)" % src(s[1])
    if k == "adapt":           # user-level adapters over an integer sub-construct: ("adapt", sub, "inc" | "xor" | "cls")
        return {"inc": "ExprAdapter(%s, decoder=obj_ + 1, encoder=obj_ - 1)", "xor": "ExprSymmetricAdapter(%s, obj_ ^ 0x55)",
                "cls": "ADAPT_NEG(%s)"}[s[2]] % src(s[1])
    if k == "oneof":
        return "OneOf(%s, %r)" % (src(s[1]), list(s[2]))
    if k == "noneof":
        return "NoneOf(%s, %r)" % (src(s[1]), list(s[2]))
    if k == "rebuildlen":
        return "Rebuild(%s, len_(this.%s))" % (src(s[1]), s[2])
    if k == "default":
        return "Default(%s, %r)" % (src(s[1]), s[2])
    if k == "struct":
        return "Struct(%s)" % ", ".join(("%r / %s" % (n, src(x))) if n else src(x) for n, x in s[1])
    if k == "seq":
        return "Sequence(%s)" % ", ".join(src(x) for x in s[1])
    if k == "focusedseq":
        return "FocusedSeq(%r, %s)" % (s[1], ", ".join(("%r / %s" % (n, src(x))) if n else src(x) for n, x in s[2]))
    if k == "array":
        return "Array(%d, %s)" % (s[1], src(s[2]))
    if k == "arrayctx":
        if s[2] is None:
            return "Array(this.%s, %s)" % (s[1], src(s[3]))
        return "Array(this.%s & %d, %s)" % (s[1], s[2], src(s[3]))
    if k == "greedyrange":
        return "GreedyRange(%s)" % src(s[1])
    if k == "prefixedarray":
        return "PrefixedArray(%s, %s)" % (src(s[1]), src(s[2]))
    if k == "repeatuntil":
        return "RepeatUntil(obj_ == %d, %s)" % (s[1], src(s[2]))
    if k == "prefixed":
        return "Prefixed(%s, %s, includelength=%r)" % (src(s[1]), src(s[2]), bool(s[3]))
    if k == "fixedsized":
        return "FixedSized(%d, %s)" % (s[1], src(s[2]))
    if k == "nullterminated":
        return "NullTerminated(%s, term=%s, include=%r, consume=%r, require=%r)" % (src(s[1]), _b(s[2]), bool(s[3]), bool(s[4]), bool(s[5]))
    if k == "nullstripped":
        return "NullStripped(%s, pad=%s)" % (src(s[1]), _b(s[2]))
    if k == "padded":
        return "Padded(%d, %s, pattern=%s)" % (s[1], src(s[2]), _b(s[3]))
    if k == "aligned":
        return "Aligned(%d, %s, pattern=%s)" % (s[1], src(s[2]), _b(s[3]))
    if k == "if":
        return "If(this.%s, %s)" % (s[1], src(s[2]))
    if k == "ifthenelse":
        return "IfThenElse(this.%s, %s, %s)" % (s[1], src(s[2]), src(s[3]))
    if k == "switch":
        body = "{%s}" % ", ".join("%r: %s" % (c, src(x)) for c, x in s[2])
        if s[3] is None:
            return "Switch(this.%s, %s)" % (s[1], body)
        return "Switch(this.%s, %s, default=%s)" % (s[1], body, src(s[3]))
    if k == "select":
        return "Select(%s)" % ", ".join(src(x) for x in s[1])
    if k == "optional":
        return "Optional(%s)" % src(s[1])
    if k == "bitwise":
        return "Bitwise(%s)" % src(s[1])
    if k == "bytewise":
        return "Bytewise(%s)" % src(s[1])
    if k == "byteswapped":
        return "ByteSwapped(%s)" % src(s[1])
    if k == "bitsswapped":
        return "BitsSwapped(%s)" % src(s[1])
    if k == "xor":
        key = s[1] if isinstance(s[1], int) else _b(s[1])
        return "ProcessXor(%s, %s)" % (key, src(s[2]))
    if k == "rawcopy":
        return "RawCopy(%s)" % src(s[1])
    if k == "peek":
        return "Peek(%s)" % src(s[1])
    if k == "pointer":
        return "Pointer(%d, %s)" % (s[1], src(s[2]))
    if k == "bytesintctx":
        return "BytesInteger((this.%s & 3) + 1, signed=%r, swapped=this.%s & 4)" % (s[1], s[2], s[1])
    if k == "bitsintctx":
        return "BitsInteger(((this.%s & 1) + 1) * 8, signed=%r, swapped=this.%s & 2)" % (s[1], s[2], s[1])
    if k == "pstring":
        return "PaddedString(%d, %r)" % (s[1], s[2])
    if k == "cstring":
        return "CString(%r)" % s[1]
    if k == "pascal":
        return "PascalString(%s, %r)" % (src(s[1]), s[2])
    if k == "greedystring":
        return "GreedyString(%r)" % s[1]
    if k == "raw":
        return s[1]
    raise ValueError("unknown spec %r" % (s,))


def namespace(C):
    ns = {}
    m = C.construct if hasattr(C, "construct") else C
    for n in dir(m):
        if not n.startswith("__"):
            ns[n] = getattr(m, n)
    neg = getattr(m, "_verif_adapt_neg", None)
    if neg is None:
        class ADAPT_NEG(m.Adapter):
            """a user-defined Adapter subclass (negation), as an application would write it"""

            def _decode(self, obj, context, path):
                return -obj

            def _encode(self, obj, context, path):
                return -obj
        neg = m._verif_adapt_neg = ADAPT_NEG
    ns["ADAPT_NEG"] = neg
    return ns


def mk(C, source, extra=None):
    """build the construct from source text with the names of copy C"""
    ns = namespace(C)
    if extra:
        ns.update(extra)
    d = eval(source, ns)
    if getattr(C, "instrumented", False):
        from symx.loader import wrap_instance_tables
        wrap_instance_tables(d)
    return d


def _xor55(x):
    from .ref import bit_of
    w = 8
    while (1 << w) <= max(abs(getattr(x, "lo", 0)), abs(getattr(x, "hi", 255))):
        w += 8
    return sum(((bit_of(x, i) + ((0x55 >> i) & 1)) % 2) * 2 ** i for i in range(w))


def warmup(d, n, patterns=None):
    """use the instance once or twice on fixed concrete inputs before the symbolic run: a construct
    carries no state from one call to the next, so this must not change anything that follows
    (an instance that caches a size, a count or a buffer across calls shows up here)"""
    for pat in (patterns or (bytes(n), bytes((i * 37 + 1) & 0xFF for i in range(n + 2)))):
        try:
            obj = d.parse(pat)
            d.build(obj)
        except Exception:
            pass


# ---------------------------------------------------------------------------------------------
def int_range(size_bits, signed):
    return (-(1 << (size_bits - 1)), (1 << (size_bits - 1)) - 1) if signed else (0, (1 << size_bits) - 1)


VARINT_BITS = {"quick": 35, "thorough": 63}


STRICT = [False]      # when set, value domains are restricted to values that round-trip by design


def domain(ctx, s, name, tier="quick", wide=False, env=None):
    """symbolic value template of spec s.  wide=True widens integer ranges by one bit on both
    sides (values the construct must reject are included).  Returns the value to build from."""
    s = T(s)
    k = s[0]
    env = {} if env is None else env

    def rng(bits, signed):
        lo, hi = int_range(bits, signed)
        if wide:
            return -(1 << bits), (1 << (bits + 1))
        return lo, hi
    if k == "fmt":
        size, signed, _ = name_info(s[1])
        return ctx.int(name, *rng(8 * size, signed))
    if k == "bytesint":
        return ctx.int(name, *rng(8 * s[1], s[2]))
    if k == "bitsint":
        return ctx.int(name, *rng(s[1], s[2]))
    if k == "varint":
        b = VARINT_BITS[tier]
        return ctx.int(name, -4 if wide else 0, (1 << b) - 1)
    if k == "zigzag":
        b = VARINT_BITS[tier] - 1
        return ctx.int(name, -(1 << b), (1 << b) - 1)
    if k == "flag":
        return ctx.bool(name)
    if k in ("pass", "tell", "terminated", "const", "constv", "computed", "rebuildlen"):
        return None
    if k == "bytes":
        return ctx.bytes(name, s[1])
    if k == "greedybytes":
        return ctx.bytes(name, s[1])
    if k == "enum":
        labels = [l for l, v in s[2]]
        # a label, or an unmapped/mapped integer
        which = ctx.int(name + ".which", 0, len(labels))
        w = ctx.concretize(which)
        if w < len(labels):
            return labels[w]
        v = domain(ctx, s[1], name + ".int", tier, False, env)
        if STRICT[0]:
            for l, x in s[2]:
                ctx.assume(v != x)      # a mapped integer parses back as its label: only unmapped ones round-trip as ints
        return v
    if k == "flagsenum":
        return {l: ctx.bool("%s.%s" % (name, l)) for l, v in s[2]}
    if k == "mapping":
        objs = [o for o, v in s[2]]
        return ctx.choice(name + ".which", objs)
    if k in ("hex", "default", "oneof", "noneof", "byteswapped", "bitsswapped", "bitwise", "bytewise"):
        return domain(ctx, s[1], name, tier, wide, env)
    if k == "adapt":
        x = domain(ctx, s[1], name, tier, wide, env)
        return {"inc": lambda: x + 1, "xor": lambda: x ^ 0x55, "cls": lambda: -x}[s[2]]()
    if k == "xor":
        return domain(ctx, s[2], name, tier, wide, env)
    if k == "struct":
        out = {}
        for n, x in s[1]:
            v = domain(ctx, x, "%s.%s" % (name, n) if n else name + "._", tier, wide, out)
            if n and (v is not None or x[0] in ("if", "ifthenelse", "switch", "optional", "select", "flag")):
                out[n] = v
        return out
    if k == "seq":
        return [domain(ctx, x, "%s[%d]" % (name, i), tier, wide, env) for i, x in enumerate(s[1])]
    if k == "focusedseq":
        for n, x in s[2]:
            if n == s[1]:
                return domain(ctx, x, name, tier, wide, env)
        raise ValueError("focusedseq without its member")
    if k == "array":
        return [domain(ctx, s[2], "%s[%d]" % (name, i), tier, wide, env) for i in range(s[1])]
    if k == "greedyrange":
        return [domain(ctx, s[1], "%s[%d]" % (name, i), tier, wide, env) for i in range(s[2])]
    if k == "prefixedarray":
        return [domain(ctx, s[2], "%s[%d]" % (name, i), tier, wide, env) for i in range(s[3])]
    if k in ("prefixed",):
        return domain(ctx, s[2], name, tier, wide, env)
    if k in ("fixedsized", "padded", "aligned"):
        return domain(ctx, s[2], name, tier, wide, env)
    if k in ("nullterminated", "nullstripped"):
        return domain(ctx, s[1], name, tier, wide, env)
    if k == "bytesintctx":
        n = ctx.concretize(env[s[1]] % 4) + 1
        return ctx.int(name, *rng(8 * n, s[2]))
    if k == "bitsintctx":
        n = (ctx.concretize(env[s[1]] % 2) + 1) * 8
        return ctx.int(name, *rng(n, s[2]))
    if k in ("pstring", "cstring", "pascal", "greedystring"):
        enc = s[2] if k in ("pstring", "pascal") else s[1]
        ncp = s[-1]
        maxcp = 0x7F if enc == "ascii" else 0x10FFFF
        if STRICT[0] and k == "pstring":
            per = s[1] // max(1, ncp)            # bytes available per code point: keep the text inside the field
            if enc.startswith("utf_16") and per < 4:
                maxcp = 0xFFFF
            if enc in ("utf8", "utf_8") and per < 4:
                maxcp = {1: 0x7F, 2: 0x7FF, 3: 0xFFFF}.get(per, 0x7F)
        v = ctx.str(name, ncp, maxcp)
        if STRICT[0]:
            for ch in getattr(v, "items", [ord(c) for c in v] if isinstance(v, str) else []):
                ctx.assume(ch != 0)          # a NUL inside the text collides with terminator / padding stripping by design
        return v
    if k == "bytesctx":
        if s[2] is None:
            if s[1] in env:
                n = env[s[1]]
                if n < 0:
                    n = 0
                elif n > 3:
                    n = 3
                else:
                    n = ctx.concretize(n)
            else:
                n = ctx.choice(name + ".len", [0, 1, 2])     # length comes from a rebuilt field
        else:
            n = ctx.concretize(env[s[1]] % (s[2] + 1))
        return ctx.bytes(name, n)
    if k == "arrayctx":
        if s[2] is None and s[1] not in env:
            n = ctx.choice(name + ".len", [0, 1, 2])           # count is a rebuilt field
        elif s[2] is None:
            n = env[s[1]]
            if n < 0:
                n = 0
            elif n > 3:
                n = ctx.choice(name + ".len", [0, 3])        # wrong-length lists for counts beyond the bound
            else:
                n = ctx.concretize(n)
        else:
            n = ctx.concretize(env[s[1]] % (s[2] + 1))
        return [domain(ctx, s[3], "%s[%d]" % (name, i), tier, wide, env) for i in range(n)]
    if k == "if":
        if env[s[1]]:
            return domain(ctx, s[2], name, tier, wide, env)
        return None
    if k == "ifthenelse":
        if env[s[1]]:
            return domain(ctx, s[2], name, tier, wide, env)
        return domain(ctx, s[3], name, tier, wide, env)
    if k == "switch":
        for c, x in s[2]:
            if env[s[1]] == c:
                return domain(ctx, x, name, tier, wide, env)
        if s[3] is None:
            return None
        return domain(ctx, s[3], name, tier, wide, env)
    if k == "repeatuntil":
        # K-1 elements different from the stop value, then the stop value
        out = []
        for i in range(s[3] - 1):
            v = domain(ctx, s[2], "%s[%d]" % (name, i), tier, False, env)
            ctx.assume(v != s[1])
            out.append(v)
        return out + [s[1]]
    if k == "select":
        i = ctx.concretize(ctx.int(name + ".alt", 0, len(s[1]) - 1))
        return domain(ctx, s[1][i], name, tier, wide, env)
    if k in ("optional", "rawcopy", "peek"):
        return domain(ctx, s[1], name, tier, wide, env)
    if k == "pointer":
        return domain(ctx, s[2], name, tier, wide, env)
    raise ValueError("no domain for spec %r" % (s,))


def walk(s):
    s = T(s)
    yield s
    for x in s[1:]:
        if isinstance(x, tuple) and x and isinstance(x[0], str) and x[0] in _KINDS:
            yield from walk(x)
        elif isinstance(x, tuple):
            for y in x:
                if isinstance(y, tuple) and y and isinstance(y[0], str) and y[0] in _KINDS:
                    yield from walk(y)
                elif isinstance(y, tuple) and len(y) == 2 and isinstance(y[1], tuple) and y[1] and y[1][0] in _KINDS:
                    yield from walk(y[1])


_KINDS = set("""adapt bytesintctx bitsintctx pstring cstring pascal greedystring fmt float bytesint bitsint varint zigzag flag pass bytes bytesctx greedybytes const constv computed tell
terminated error enum flagsenum mapping hex oneof noneof rebuildlen default struct seq focusedseq array arrayctx greedyrange
prefixedarray repeatuntil prefixed fixedsized nullterminated nullstripped padded aligned if ifthenelse switch select optional
bitwise bytewise byteswapped bitsswapped xor rawcopy peek pointer raw""".split())


def short(s, n=90):
    t = src(s)
    return t if len(t) <= n else t[:n - 3] + "..."


# ---------------------------------------------------------------------------------------------
# generator of well-formed composite specs (used by C01, C02, C04, C05, C06, C18)
I8, I8s, I16l, I16b, I16sb, I24, I32, I64s = (("fmt", "Int8ub"), ("fmt", "Int8sb"), ("fmt", "Int16ul"), ("fmt", "Int16ub"), ("fmt", "Int16sb"),
                                              ("fmt", "Int24ul"), ("fmt", "Int32ub"), ("fmt", "Int64sl"))
VAR = ("varint",)
ZZ = ("zigzag",)
FLAG = ("flag",)
ENUM_S = ("enum", I8, (("one", 1), ("two", 2), ("big", 200)))
FLAGS_S = ("flagsenum", I8, (("a", 1), ("b", 4), ("c", 128)))
MAP_S = ("mapping", I8, (("x", 0), ("y", 255)))
BITS_S = ("bitwise", ("struct", (("p", ("bitsint", 3, False, False)), ("q", ("bitsint", 5, True, False)))))
BITS16 = ("bitwise", ("struct", (("p", ("bitsint", 1, False, False)), ("q", ("bitsint", 10, True, False)), ("f", FLAG), ("r", ("bitsint", 4, False, False)))))

BITS_SW = ("bitwise", ("struct", (("s", ("bitsint", 16, True, True)), ("u", ("bitsint", 8, False, True)))))
STR_C = ("cstring", "utf8", 1)
STR_P = ("pstring", 4, "utf_16_le", 1)
STR_L = ("pascal", ("fmt", "Int8ub"), "utf8", 2)
LEAVES = [I8, I16l, I16sb, I24, I64s, ("bytesint", 5, True, True), VAR, ZZ, FLAG, ("bytes", 2), ENUM_S, FLAGS_S, MAP_S, BITS_S, BITS_SW, STR_C, STR_P, STR_L]
LEAVES_SMALL = [I8, I16sb, VAR, FLAG, ("bytes", 2), ENUM_S]


def is_greedy(s):
    """does the construct read to the end of the stream?"""
    s = T(s)
    k = s[0]
    if k in ("greedybytes", "greedyrange", "nullstripped", "xor", "greedystring"):
        return True
    if k in ("optional", "select"):
        return True          # alternatives look at whatever follows
    if k in ("struct", "focusedseq"):
        mem = s[1] if k == "struct" else s[2]
        return any(is_greedy(x) for n, x in mem)
    if k == "seq":
        return any(is_greedy(x) for x in s[1])
    if k in ("array",):
        return is_greedy(s[2])
    if k in ("arrayctx",):
        return is_greedy(s[3])
    if k in ("prefixedarray",):
        return is_greedy(s[2])
    if k in ("enum", "flagsenum", "mapping", "hex", "oneof", "noneof", "default", "rebuildlen", "rawcopy", "bitsswapped", "adapt"):
        return is_greedy(s[1])
    if k in ("padded", "aligned"):
        return is_greedy(s[2])
    if k in ("if",):
        return is_greedy(s[2])
    if k == "ifthenelse":
        return is_greedy(s[2]) or is_greedy(s[3])
    if k == "switch":
        return any(is_greedy(x) for c, x in s[2]) or (s[3] is not None and is_greedy(s[3]))
    if k == "nullterminated":
        return not s[5]      # require=False: EOF counts as terminator
    return False


def wrappers(x, rnd=None):
    """well-formed one-level wrappings of spec x (x non-greedy)"""
    from .ref import static_size
    z = static_size(x)
    out = [
        ("struct", (("a", I8), ("b", x), ("c", I16l))),
        ("struct", (("n", I8), ("b", x), ("d", ("bytesctx", "n", 3)))),
        ("seq", (x, VAR)),
        ("array", 2, x),
        ("prefixedarray", I8, x, 2),
        ("prefixedarray", VAR, x, 1),
        ("greedyrange_tail", x),
        ("prefixed", I8, x, False),
        ("prefixed", I16l, x, True),
        ("prefixed", VAR, ("greedyrange", x, 2), False),
        ("aligned", 4, x, "00"),
        ("struct", (("k", I8), ("v", ("ifthenelse", "k", x, I8)), ("z", I8))),
        ("struct", (("k", I8), ("v", ("if", "k", x)))),
        ("struct", (("k", I8), ("v", ("switch", "k", ((1, x), (2, I16l)), None)), ("z", FLAG))),
        ("struct", (("k", ENUM_S), ("v", ("switch", "k", (("one", x),), VAR)))),
        ("focusedseq", "m", (("h", ("const", "a55a")), ("m", x), ("t", ("const", "00")))),
        ("struct", (("cnt", ("rebuildlen", I8, "items")), ("items", ("arrayctx", "cnt", None, x)))),
        ("struct", (("d", ("default", I16sb, -7)), ("e", x))),
        ("xor", 90, ("struct", (("a", x),))),
        ("xor", "a1b2", ("struct", (("a", x),))),
    ]
    if z is not None:
        out += [("padded", z + 2, x, "00"), ("padded", z, x, "ee"), ("fixedsized", z + 1, x), ("byteswapped", x), ("bitsswapped", x),
                ("struct", (("a", x), ("t", ("tell",)), ("b", I8)))]
    return out


def expand(s):
    """resolve pseudo-specs produced by wrappers()"""
    s = T(s)
    if s[0] == "greedyrange_tail":
        return ("struct", (("h", I8), ("items", ("greedyrange", s[1], 2))))
    return s


def generate(tier, seed, depth2=200):
    """deterministic list of composite specs: all leaves, all depth-1 wrappings, seeded sample of depth-2"""
    import random
    rnd = random.Random(seed * 104729 + 7)
    out = list(LEAVES)
    d1 = []
    for x in LEAVES:
        for w in wrappers(x):
            d1.append(expand(w))
    out += d1
    cands = []
    for x in LEAVES_SMALL:
        for w in wrappers(x):
            w = expand(w)
            if is_greedy(w):
                continue
            for w2 in wrappers(w):
                cands.append(expand(w2))
    rnd.shuffle(cands)
    out += cands[:depth2]
    seen, uniq = set(), []
    for s in out:
        t = src(s)
        if t not in seen:
            seen.add(t)
            uniq.append(s)
    return uniq
