"""checks.common -- construct grammar (specs), source rendering, value domains.

A *spec* is a nested tuple describing a construct; it is JSON-able (instances carry it as
params), renders to construct source text (`src`), and has a symbolic value template
(`domain`).  Replay files therefore show readable construct expressions.

spec forms
  leaves      ("fmt", "Int16ul")               any public numeric singleton name
              ("bytesint", n, signed, swapped) BytesInteger
              ("bitsint", w, signed, swapped)  BitsInteger (inside bit regions)
              ("varint",) ("zigzag",) ("flag",) ("pass",)
              ("bytes", n)  ("bytesctx", key, mask)  Bytes(this.key & mask)
              ("greedybytes", L)               L = length used when a value is generated
              ("const", hexbytes)              Const(b"..")
              ("constv", value, sub)           Const(value, sub)
              ("computed", key) ("tell",) ("terminated",) ("error",)
  adapters    ("enum", sub, [[label, value]..]) ("flagsenum", sub, [[label, value]..])
              ("mapping", sub, [[obj, value]..])   ("hex", sub)
              ("oneof", sub, [values]) ("noneof", sub, [values])
              ("rebuildlen", sub, key)         Rebuild(sub, len_(this.key))
              ("default", sub, value)
  composites  ("struct", [[name, spec]..]) ("seq", [spec..]) ("focusedseq", name, [[name, spec]..])
              ("array", n, sub) ("arrayctx", key, mask, sub) ("greedyrange", sub, K) ("prefixedarray", cnt, sub, K)
              ("repeatuntil", stopvalue, sub, K)
  delimiters  ("prefixed", len, sub, includelength) ("fixedsized", n, sub)
              ("nullterminated", sub, termhex, include, consume, require) ("nullstripped", sub, padhex)
              ("padded", n, sub, pathex) ("aligned", m, sub, pathex)
  condition   ("if", key, sub) ("ifthenelse", key, a, b) ("switch", key, [[k, spec]..], default|None)
              ("select", [spec..]) ("optional", sub)
  transforms  ("bitwise", sub) ("bytewise", sub) ("byteswapped", sub) ("bitsswapped", sub)
              ("xor", keyhex|int, sub) ("rawcopy", sub) ("peek", sub) ("pointer", off, sub)
"""
import re

FMT = {}
for _n, _sz in (("8", 1), ("16", 2), ("32", 4), ("64", 8)):
    for _s in "us":
        for _e in "bln":
            FMT["Int%s%s%s" % (_n, _s, _e)] = (_sz, _s == "s", _e)
for _s in "us":
    for _e in "bln":
        FMT["Int24%s%s" % (_s, _e)] = (3, _s == "s", _e)
FMT.update(Byte=(1, False, "b"), Short=(2, False, "b"), Int=(4, False, "b"), Long=(8, False, "b"))
FLOATS = {}
for _n, _sz in (("16", 2), ("32", 4), ("64", 8)):
    for _e in "bln":
        FLOATS["Float%s%s" % (_n, _e)] = (_sz, _e)
FLOATS.update(Half=(2, "b"), Single=(4, "b"), Double=(8, "b"))


def name_info(name):
    """(size, signed, byteorder) of a public integer name, from the naming convention alone"""
    import sys
    size, signed, e = FMT[name]
    order = {"b": "big", "l": "little", "n": sys.byteorder}[e]
    return size, signed, order


def T(x):
    """lists -> tuples (specs read back from JSON)"""
    if isinstance(x, list):
        return tuple(T(i) for i in x)
    return x


def J(x):
    if isinstance(x, tuple):
        return [J(i) for i in x]
    if isinstance(x, bytes):
        return x.hex()
    return x


def _b(hexs):
    return repr(bytes.fromhex(hexs))


def src(s):
    """construct source text of a spec"""
    s = T(s)
    k = s[0]
    if k == "fmt":
        return s[1]
    if k == "float":
        return s[1]
    if k == "bytesint":
        return "BytesInteger(%d, signed=%r, swapped=%r)" % (s[1], s[2], s[3])
    if k == "bitsint":
        return "BitsInteger(%d, signed=%r, swapped=%r)" % (s[1], s[2], s[3])
    if k in ("varint", "zigzag", "flag", "pass", "tell", "terminated", "error"):
        return {"varint": "VarInt", "zigzag": "ZigZag", "flag": "Flag", "pass": "Pass", "tell": "Tell",
                "terminated": "Terminated", "error": "Error"}[k]
    if k == "bytes":
        return "Bytes(%d)" % s[1]
    if k == "bytesctx":
        return "Bytes(this.%s & %d)" % (s[1], s[2]) if s[2] is not None else "Bytes(this.%s)" % s[1]
    if k == "greedybytes":
        return "GreedyBytes"
    if k == "const":
        return "Const(%s)" % _b(s[1])
    if k == "constv":
        return "Const(%r, %s)" % (s[1], src(s[2]))
    if k == "computed":
        return "Computed(this.%s)" % s[1]
    if k == "enum":
        return "Enum(%s, %s)" % (src(s[1]), ", ".join("%s=%d" % (l, v) for l, v in s[2]))
    if k == "flagsenum":
        return "FlagsEnum(%s, %s)" % (src(s[1]), ", ".join("%s=%d" % (l, v) for l, v in s[2]))
    if k == "mapping":
        return "Mapping(%s, {%s})" % (src(s[1]), ", ".join("%r: %r" % (o, v) for o, v in s[2]))
    if k == "hex":
        return "Hex(%s)" % src(s[1])
    if k == "oneof":
        return "OneOf(%s, %r)" % (src(s[1]), list(s[2]))
    if k == "noneof":
        return "NoneOf(%s, %r)" % (src(s[1]), list(s[2]))
    if k == "rebuildlen":
        return "Rebuild(%s, len_(this.%s))" % (src(s[1]), s[2])
    if k == "default":
        return "Default(%s, %r)" % (src(s[1]), s[2])
    if k == "struct":
        return "Struct(%s)" % ", ".join(("%r / %s" % (n, src(x))) if n else src(x) for n, x in s[1])
    if k == "seq":
        return "Sequence(%s)" % ", ".join(src(x) for x in s[1])
    if k == "focusedseq":
        return "FocusedSeq(%r, %s)" % (s[1], ", ".join(("%r / %s" % (n, src(x))) if n else src(x) for n, x in s[2]))
    if k == "array":
        return "Array(%d, %s)" % (s[1], src(s[2]))
    if k == "arrayctx":
        if s[2] is None:
            return "Array(this.%s, %s)" % (s[1], src(s[3]))
        return "Array(this.%s & %d, %s)" % (s[1], s[2], src(s[3]))
    if k == "greedyrange":
        return "GreedyRange(%s)" % src(s[1])
    if k == "prefixedarray":
        return "PrefixedArray(%s, %s)" % (src(s[1]), src(s[2]))
    if k == "repeatuntil":
        return "RepeatUntil(obj_ == %d, %s)" % (s[1], src(s[2]))
    if k == "prefixed":
        return "Prefixed(%s, %s, includelength=%r)" % (src(s[1]), src(s[2]), bool(s[3]))
    if k == "fixedsized":
        return "FixedSized(%d, %s)" % (s[1], src(s[2]))
    if k == "nullterminated":
        return "NullTerminated(%s, term=%s, include=%r, consume=%r, require=%r)" % (src(s[1]), _b(s[2]), bool(s[3]), bool(s[4]), bool(s[5]))
    if k == "nullstripped":
        return "NullStripped(%s, pad=%s)" % (src(s[1]), _b(s[2]))
    if k == "padded":
        return "Padded(%d, %s, pattern=%s)" % (s[1], src(s[2]), _b(s[3]))
    if k == "aligned":
        return "Aligned(%d, %s, pattern=%s)" % (s[1], src(s[2]), _b(s[3]))
    if k == "if":
        return "If(this.%s, %s)" % (s[1], src(s[2]))
    if k == "ifthenelse":
        return "IfThenElse(this.%s, %s, %s)" % (s[1], src(s[2]), src(s[3]))
    if k == "switch":
        body = "{%s}" % ", ".join("%r: %s" % (c, src(x)) for c, x in s[2])
        if s[3] is None:
            return "Switch(this.%s, %s)" % (s[1], body)
        return "Switch(this.%s, %s, default=%s)" % (s[1], body, src(s[3]))
    if k == "select":
        return "Select(%s)" % ", ".join(src(x) for x in s[1])
    if k == "optional":
        return "Optional(%s)" % src(s[1])
    if k == "bitwise":
        return "Bitwise(%s)" % src(s[1])
    if k == "bytewise":
        return "Bytewise(%s)" % src(s[1])
    if k == "byteswapped":
        return "ByteSwapped(%s)" % src(s[1])
    if k == "bitsswapped":
        return "BitsSwapped(%s)" % src(s[1])
    if k == "xor":
        key = s[1] if isinstance(s[1], int) else _b(s[1])
        return "ProcessXor(%s, %s)" % (key, src(s[2]))
    if k == "rawcopy":
        return "RawCopy(%s)" % src(s[1])
    if k == "peek":
        return "Peek(%s)" % src(s[1])
    if k == "pointer":
        return "Pointer(%d, %s)" % (s[1], src(s[2]))
    if k == "raw":
        return s[1]
    raise ValueError("unknown spec %r" % (s,))


def namespace(C):
    ns = {}
    m = C.construct if hasattr(C, "construct") else C
    for n in dir(m):
        if not n.startswith("__"):
            ns[n] = getattr(m, n)
    return ns


def mk(C, source, extra=None):
    """build the construct from source text with the names of copy C"""
    ns = namespace(C)
    if extra:
        ns.update(extra)
    d = eval(source, ns)
    if getattr(C, "instrumented", False):
        from symx.loader import wrap_instance_tables
        wrap_instance_tables(d)
    return d


# ---------------------------------------------------------------------------------------------
def int_range(size_bits, signed):
    return (-(1 << (size_bits - 1)), (1 << (size_bits - 1)) - 1) if signed else (0, (1 << size_bits) - 1)


VARINT_BITS = {"quick": 35, "thorough": 63}


def domain(ctx, s, name, tier="quick", wide=False, env=None):
    """symbolic value template of spec s.  wide=True widens integer ranges by one bit on both
    sides (values the construct must reject are included).  Returns the value to build from."""
    s = T(s)
    k = s[0]
    env = {} if env is None else env

    def rng(bits, signed):
        lo, hi = int_range(bits, signed)
        if wide:
            return -(1 << bits), (1 << (bits + 1))
        return lo, hi
    if k == "fmt":
        size, signed, _ = name_info(s[1])
        return ctx.int(name, *rng(8 * size, signed))
    if k == "bytesint":
        return ctx.int(name, *rng(8 * s[1], s[2]))
    if k == "bitsint":
        return ctx.int(name, *rng(s[1], s[2]))
    if k == "varint":
        b = VARINT_BITS[tier]
        return ctx.int(name, -4 if wide else 0, (1 << b) - 1)
    if k == "zigzag":
        b = VARINT_BITS[tier] - 1
        return ctx.int(name, -(1 << b), (1 << b) - 1)
    if k == "flag":
        return ctx.bool(name)
    if k in ("pass", "tell", "terminated", "const", "constv", "computed", "rebuildlen"):
        return None
    if k == "bytes":
        return ctx.bytes(name, s[1])
    if k == "greedybytes":
        return ctx.bytes(name, s[1])
    if k == "enum":
        labels = [l for l, v in s[2]]
        # a label, or an unmapped/mapped integer
        which = ctx.int(name + ".which", 0, len(labels))
        w = ctx.concretize(which)
        if w < len(labels):
            return labels[w]
        return domain(ctx, s[1], name + ".int", tier, False, env)
    if k == "flagsenum":
        return {l: ctx.bool("%s.%s" % (name, l)) for l, v in s[2]}
    if k == "mapping":
        objs = [o for o, v in s[2]]
        return ctx.choice(name + ".which", objs)
    if k in ("hex", "default", "oneof", "noneof", "byteswapped", "bitsswapped", "bitwise", "bytewise"):
        return domain(ctx, s[1], name, tier, wide, env)
    if k == "xor":
        return domain(ctx, s[2], name, tier, wide, env)
    if k == "struct":
        out = {}
        for n, x in s[1]:
            v = domain(ctx, x, "%s.%s" % (name, n) if n else name + "._", tier, wide, out)
            if n and (v is not None or x[0] in ("if", "ifthenelse", "switch", "optional", "select", "flag")):
                out[n] = v
        return out
    if k == "seq":
        return [domain(ctx, x, "%s[%d]" % (name, i), tier, wide, env) for i, x in enumerate(s[1])]
    if k == "focusedseq":
        for n, x in s[2]:
            if n == s[1]:
                return domain(ctx, x, name, tier, wide, env)
        raise ValueError("focusedseq without its member")
    if k == "array":
        return [domain(ctx, s[2], "%s[%d]" % (name, i), tier, wide, env) for i in range(s[1])]
    if k == "greedyrange":
        return [domain(ctx, s[1], "%s[%d]" % (name, i), tier, wide, env) for i in range(s[2])]
    if k == "prefixedarray":
        return [domain(ctx, s[2], "%s[%d]" % (name, i), tier, wide, env) for i in range(s[3])]
    if k in ("prefixed",):
        return domain(ctx, s[2], name, tier, wide, env)
    if k in ("fixedsized", "padded", "aligned"):
        return domain(ctx, s[2], name, tier, wide, env)
    if k in ("nullterminated", "nullstripped"):
        return domain(ctx, s[1], name, tier, wide, env)
    if k == "bytesctx":
        if s[2] is None:
            if s[1] in env:
                n = env[s[1]]
                if n < 0:
                    n = 0
                elif n > 3:
                    n = 3
                else:
                    n = ctx.concretize(n)
            else:
                n = ctx.choice(name + ".len", [0, 1, 2])     # length comes from a rebuilt field
        else:
            n = ctx.concretize(env[s[1]] % (s[2] + 1))
        return ctx.bytes(name, n)
    if k == "arrayctx":
        if s[2] is None:
            n = env[s[1]]
            if n < 0:
                n = 0
            elif n > 3:
                n = ctx.choice(name + ".len", [0, 3])        # wrong-length lists for counts beyond the bound
            else:
                n = ctx.concretize(n)
        else:
            n = ctx.concretize(env[s[1]] % (s[2] + 1))
        return [domain(ctx, s[3], "%s[%d]" % (name, i), tier, wide, env) for i in range(n)]
    if k == "if":
        if env[s[1]]:
            return domain(ctx, s[2], name, tier, wide, env)
        return None
    if k == "ifthenelse":
        if env[s[1]]:
            return domain(ctx, s[2], name, tier, wide, env)
        return domain(ctx, s[3], name, tier, wide, env)
    if k == "switch":
        for c, x in s[2]:
            if env[s[1]] == c:
                return domain(ctx, x, name, tier, wide, env)
        if s[3] is None:
            return None
        return domain(ctx, s[3], name, tier, wide, env)
    if k == "repeatuntil":
        # K-1 elements different from the stop value, then the stop value
        out = []
        for i in range(s[3] - 1):
            v = domain(ctx, s[2], "%s[%d]" % (name, i), tier, False, env)
            ctx.assume(v != s[1])
            out.append(v)
        return out + [s[1]]
    if k == "select":
        i = ctx.concretize(ctx.int(name + ".alt", 0, len(s[1]) - 1))
        return domain(ctx, s[1][i], name, tier, wide, env)
    if k in ("optional", "rawcopy", "peek"):
        return domain(ctx, s[1], name, tier, wide, env)
    if k == "pointer":
        return domain(ctx, s[2], name, tier, wide, env)
    raise ValueError("no domain for spec %r" % (s,))


def walk(s):
    s = T(s)
    yield s
    for x in s[1:]:
        if isinstance(x, tuple) and x and isinstance(x[0], str) and x[0] in _KINDS:
            yield from walk(x)
        elif isinstance(x, tuple):
            for y in x:
                if isinstance(y, tuple) and y and isinstance(y[0], str) and y[0] in _KINDS:
                    yield from walk(y)
                elif isinstance(y, tuple) and len(y) == 2 and isinstance(y[1], tuple) and y[1] and y[1][0] in _KINDS:
                    yield from walk(y[1])


_KINDS = set("""fmt float bytesint bitsint varint zigzag flag pass bytes bytesctx greedybytes const constv computed tell
terminated error enum flagsenum mapping hex oneof noneof rebuildlen default struct seq focusedseq array arrayctx greedyrange
prefixedarray repeatuntil prefixed fixedsized nullterminated nullstripped padded aligned if ifthenelse switch select optional
bitwise bytewise byteswapped bitsswapped xor rawcopy peek pointer raw""".split())


def short(s, n=90):
    t = src(s)
    return t if len(t) <= n else t[:n - 3] + "..."
