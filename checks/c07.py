"""C07 -- context expressions resolve identically when parsing, building and sizing.

Programs: chains of nested scope-introducing constructs (Struct / Sequence / FocusedSeq / LazyStruct /
Union, optionally repeated by Array / GreedyRange / RepeatUntil between levels), depth 1..3, with one
reference path (this.x, this._.x, this._._.x, this._root.x, this._params.k, this._index, this.n for a
rebuilt sibling, the three mode flags) placed at the innermost position as Computed(ref), Bytes(ref & 3),
Array(ref & 3, Byte) or If(ref & 1, Byte).  Every level has its own field named `x` with an
independent symbolic value, so resolving to the wrong scope is visible to the solver.
Oracle: a scope resolver over the shape (which field a path denotes per the documented rules).
Obligations: build emits the layout the resolved value dictates; parsing the built bytes yields the
denoted value in the Computed probe and the same layout; sizeof agrees when it answers; exactly the
right mode flag is true in each API.
"""
import random
from symx import api
from symx.values import mkbytes
from .common import mk

PROPERTY = "C07"
LEVEL = "model_checking"
INSTANCE_BUDGET_S = {"quick": 90, "thorough": 600}
EXHAUSTIVE = {"quick": False, "thorough": False}
KINDS = ["Struct", "Sequence", "LazyStruct", "FocusedSeq"]
INNER_KINDS = ["Struct", "Sequence", "LazyStruct"]
WRAPS = ["", "Array", "GreedyRange", "RepeatUntil"]
REFS = ["x", "_.x", "_._.x", "_root.x", "_params.k", "_index", "n", "_._params.k", "_root._params.k"]
PROBES = ["bytes", "array", "if"]
BOUNDS = {
    "quick": dict(shapes="all depth-1 and depth-2 chains over 5 scope kinds x 4 repetition wrappers (valid combinations), seeded sample of 300 depth-3 chains",
                  refs=REFS, probes=["Computed(ref) always", "+ one of Bytes(ref & 3), Array(ref & 3, Byte), If(ref & 1, Byte)"], values="every field one symbolic byte; kwargs symbolic bytes"),
    "thorough": dict(shapes="as quick + 3000 depth-3 chains", refs=REFS, probes="as quick", values="as quick"),
}
OUTSIDE = ["depth > 3", "cross references inside LazyStruct to lazily skipped siblings (documented restriction: docs/lazy.rst)", "Union on the build side below the first member (Union builds only the first member it finds)"]
ASSUMPTIONS = ["oracle: resolve() below, written from docs/meta.rst and the class docstrings"]


def resolve(ref, depth, level_has_array):
    """what a reference placed at the innermost level (index depth-1) denotes:
    ('x', level) | ('kw', name) | ('index', level_of_array) | ('n',) | None when the path leaves the structure"""
    n = depth - 1
    if ref == "x":
        return ("x", n)
    if ref == "_.x":
        return ("x", n - 1) if n - 1 >= 0 else ("kw", "x")
    if ref == "_._.x":
        if n - 2 >= 0:
            return ("x", n - 2)
        return ("kw", "x") if n - 2 == -1 else None
    if ref == "_root.x":
        return ("x", 0)
    if ref in ("_params.k", "_._params.k", "_root._params.k"):
        return ("kw", "k")
    if ref == "_index":
        arr = [i for i in range(depth) if level_has_array[i]]
        return ("index", arr[-1]) if arr else None
    if ref == "n":
        return ("n",)
    return None


def valid_chain(chain):
    chain = [(c[0], c[1]) for c in chain]
    for i, (kind, wrap) in enumerate(chain):
        if wrap == "GreedyRange" and kind == "LazyStruct":
            return False       # GreedyRange over a lazy construct does not terminate (known finding, C06)
        last = i == len(chain) - 1
        if last and kind not in INNER_KINDS:
            return False
        if wrap in ("GreedyRange", "RepeatUntil") and i != 0 and chain[i - 1][1] in ("GreedyRange",):
            return False
    # a greedy repetition must be the last thing in its parent: our parents put the child last, so fine;
    # but at most one GreedyRange (it consumes to EOF)
    if sum(1 for k, w in chain if w == "GreedyRange") > 1:
        return False
    if sum(1 for k, w in chain if w) > 2:
        return False           # three nested repetitions: 8 innermost elements, outside the quick/thorough bounds
    for i, (k, w) in enumerate(chain):
        if w == "GreedyRange" and any(w2 for k2, w2 in chain[:i]):
            return False       # a greedy repetition inside a repeated parent would swallow the parent's next element
    return True


# alternatives of Select / Optional resolve names in the scope they stand in, when building as when parsing
SELECT_SCOPE = [
    ("Struct('s'/Select(Bytes(this._params.n), Byte))", dict(n=2)), ("Struct('k'/Byte, 'in'/Struct('s'/Select(Bytes(this._root.k & 3), Byte)))", {}),
    ("Struct('k'/Byte, 'in'/Struct('s'/Select(Bytes(this._.k & 3), Byte)))", {}), ("Struct('k'/Byte, 's'/Select(Struct('v'/Bytes(this._.k & 3)), Byte))", {}),
    ("Struct('k'/Byte, 's'/Optional(Struct('v'/Bytes(this._root.k & 3))))", {}), ("Struct('k'/Byte, 's'/Optional(Struct('v'/Bytes(this._params.n))))", dict(n=1)),
    ("Struct('in'/Struct('s'/Select(Struct('v'/Bytes(this._._params.n)), Byte)))", dict(n=2)), ("Sequence(Byte, Select(Bytes(this._params.n), Byte))", dict(n=3)),
    ("Struct('obj'/Byte, 's'/Select(Const(b'\\x01'), Byte))", {}), ("Struct('self'/Byte, 'o'/Optional(Int16ub))", {}), ("Struct('stream'/Byte, 'context'/Byte, 'path'/Byte, 'o'/Optional(Byte))", {}),
    ("Struct('k'/Byte, 's'/Select(If(this._building | this._parsing, Bytes(this.k & 1)), Byte))", {}),
]


def instances(tier, seed):
    rnd = random.Random(seed * 613 + 1)
    chains = []
    for k in KINDS:
        for w in WRAPS:
            chains.append([(k, w)])
    for k1 in KINDS:
        for w1 in WRAPS:
            for k2 in KINDS:
                for w2 in WRAPS:
                    chains.append([(k1, w1), (k2, w2)])
    d3 = []
    for _ in range(300 if tier == "quick" else 3000):
        d3.append([(rnd.choice(KINDS), rnd.choice(WRAPS)) for _ in range(3)])
    # variants in which an intermediate level declares its child BEFORE its own field x (the child's parent scope is
    # then still empty when the child is entered)
    cfs = []
    for chain in chains + d3:
        if len(chain) >= 2 and all(k in ("Struct", "Sequence") for k, w in chain[:-1]):
            for lvl in range(len(chain) - 1):
                c2 = [tuple(c) for c in chain]
                c2[lvl] = (c2[lvl][0], c2[lvl][1], True)
                cfs.append(c2)
    rnd.shuffle(cfs)
    out, seen = [], set()
    for chain in chains + d3 + cfs[:120 if tier == "quick" else 1200]:
        if not valid_chain(chain):
            continue
        cfl = [i for i, c in enumerate(chain) if len(c) > 2 and c[2]]
        if any(chain[i + 1][1] == "GreedyRange" for i in cfl):
            continue            # a greedy child declared before x would swallow x
        if cfl:
            refs = ["_root.x", "x", "_params.k", "_index"]
        elif len(chain) == 1 or tier != "quick":
            refs = REFS if len(chain) < 3 else [rnd.choice(REFS), rnd.choice(REFS)]
        elif len(chain) == 2:
            j = rnd.randrange(len(REFS))
            refs = [REFS[j], REFS[(j + 3) % len(REFS)], REFS[(j + 6) % len(REFS)]]
        else:
            refs = [rnd.choice(REFS)]
        for ref in refs:
            has_arr = [bool(c[1]) for c in chain]
            # wrapper of level i repeats level i itself, so _index is visible inside level i
            den = resolve(ref, len(chain), has_arr)
            if den is None:
                continue
            if den[0] == "x" and den[1] in cfl:
                continue           # that level's x is declared after the child: not yet known while the child is parsed
            # documented restriction (docs/lazy.rst): members of a LazyStruct that were skipped lazily are not in the context
            if den[0] == "x" and chain[den[1]][0] == "LazyStruct":
                continue
            if den[0] == "n" and chain[-1][0] == "LazyStruct":
                continue
            if den[0] == "index" and any(c[0] == "LazyStruct" for c in chain):
                continue       # LazyStruct sizes its members with sizeof, where _index is None (outside: documented lazy restrictions)
            probe = PROBES[(len(out) + len(ref)) % 3] if len(chain) > 1 else None
            for pr in ([probe] if probe else PROBES):
                nm = "%s  ref=this.%s probe=%s" % (" > ".join(((c[1] + "(" + c[0] + ")") if c[1] else c[0]) + ("^" if len(c) > 2 and c[2] else "") for c in chain), ref, pr)
                if nm in seen:
                    continue
                seen.add(nm)
                out.append(dict(name=nm, params=dict(chain=[list(c) for c in chain], ref=ref, probe=pr)))
    for ref in sorted(UREFS):
        for nested in (False, True):
            for pf in (None, 0, "c"):
                out.append(dict(name="union ref=this.%s nested=%s parsefrom=%r" % (ref, nested, pf), params=dict(kind="union", ref=ref, nested=nested, pf=pf)))
    for ref in ("_.m", "_root.m", "_params.k", "_._.m", "q", "_root._params.m"):
        out.append(dict(name="union build ref=this.%s" % ref, params=dict(kind="union-build", ref=ref)))
    out.append(dict(name="flags after an unsized member of a LazyStruct", params=dict(kind="lazyflags")))
    for inner in ("GreedyRange(Byte)", "Array(2, Byte)", "RepeatUntil(lambda o, l, c: len(l) == 2, Byte)"):
        for outer in ("Array(2, {})", "RepeatUntil(lambda o, l, c: len(l) == 2, {})"):
            out.append(dict(name="_index in a delimiter length around a repeater: %s" % outer.format("FixedSized(this._index + 2, %s)" % inner),
                            params=dict(kind="indexfixed", outer=outer, inner=inner)))
    for k in ("Struct", "LazyStruct"):
        for shape in ("flat", "nested", "root"):
            out.append(dict(name="forward reference to a member whose name starts with an underscore: %s %s" % (k, shape), params=dict(kind="private", scope=k, shape=shape)))
    for rep in ("Array(3, {}, discard=True)", "RepeatUntil(lambda o, l, c: c._index == 2, {}, discard=True)", "RepeatUntil(lambda o, l, c: c._index == 2, {})", "GreedyRange({}, discard=True)"):
        out.append(dict(name="_index seen by the elements of %s when building and when parsing" % rep.format("..."), params=dict(kind="indexdiscard", rep=rep)))
    for api_ in ("parse", "build", "sizeof"):
        for k in INNER_KINDS + ["FocusedSeq"]:
            out.append(dict(name="flags %s in %s" % (api_, k), params=dict(kind="flags", api=api_, scope=k)))
            if api_ != "sizeof" and k != "LazyStruct":
                out.append(dict(name="flags %s in %s, compiled" % (api_, k), params=dict(kind="flags", api=api_, scope=k, compiled=True)))
    for inner in ("Array(3, Byte)", "Array(2, Byte)", "RepeatUntil(lambda o, l, c: len(l) == 2, Byte)", "Array(1, Array(3, Byte))"):
        for outer in ("Array(2, {})", "RepeatUntil(lambda o, l, c: len(l) == 2, {})", "GreedyRange({})"):
            out.append(dict(name="_index after an inner repeater resolves alike when parsing and when building: %s" % outer.format("Struct('vals'/%s, 'tag'/Bytes(this._index + 1))" % inner),
                            params=dict(kind="indexafter", outer=outer, inner=inner), expect=["ok"]))
    for src_, kw in SELECT_SCOPE:
        out.append(dict(name="scope inside the alternatives of Select / Optional: %s %s" % (src_, kw or ""), params=dict(kind="selectscope", source=src_, kw=kw), expect=["ok"]))
    for shape in ("flat", "nested", "root"):
        out.append(dict(name="the object a LazyStruct parsed builds again, forward references included: %s" % shape, params=dict(kind="lazybuild", shape=shape)))
    for shape in ("flat", "nested", "root"):
        out.append(dict(name="members a LazyStruct had to parse are in scope for the members after them: %s" % shape, params=dict(kind="lazyeager", shape=shape)))
    return out


# ---------------------------------------------------------------------------------------------
def needs_kw(chain, ref):
    return ref in ("_params.k", "_._params.k", "_root._params.k", "n") or any(c[0] == "FocusedSeq" for c in chain) or \
        (resolve(ref, len(chain), [bool(c[1]) for c in chain]) or ("",))[0] == "kw"


def level_source(i, chain, ref, probe, usekw=True):
    """construct source of level i (recursively includes deeper levels)"""
    kind, wrap = chain[i][0], chain[i][1]
    cf = len(chain[i]) > 2 and chain[i][2]
    last = i == len(chain) - 1
    if last:
        body = ["'x'/Byte", "'n'/Rebuild(Byte, %s)" % ("this._params.k" if usekw else "7"), "'pc'/Computed(this.%s)" % ref]
        if probe == "bytes":
            body.append("'pb'/Bytes(this.%s & 3)" % ref)
        elif probe == "array":
            body.append("'pb'/Array(this.%s & 3, Byte)" % ref)
        else:
            body.append("'pb'/If(this.%s & 1, Byte)" % ref)
        body.append("'t'/Byte")
        inner = "%s(%s)" % (kind, ", ".join(body))
    else:
        child = level_source(i + 1, chain, ref, probe, usekw)
        if kind == "FocusedSeq":
            inner = "FocusedSeq('child', 'x'/Rebuild(Byte, this._params.fx%d), 'child'/%s)" % (i, child)
        elif cf:
            inner = "%s('child'/%s, 'x'/Byte)" % (kind, child)
        else:
            inner = "%s('x'/Byte, 'child'/%s)" % (kind, child)
    if wrap == "Array":
        return "Array(2, %s)" % inner
    if wrap == "GreedyRange":
        return "GreedyRange(%s)" % inner
    if wrap == "RepeatUntil":
        return "RepeatUntil(lambda obj, lst, ctx: len(lst) == 2, %s)" % inner
    return inner


class Gen:
    """assembles, per level, the value to build, the expected byte length and the obligations on the parsed object"""

    def __init__(self, ctx, chain, ref, probe, kw):
        self.ctx, self.chain, self.ref, self.probe, self.kw = ctx, chain, ref, probe, kw
        self.depth = len(chain)
        self.has_arr = [bool(c[1]) for c in chain]
        self.checks = []        # (description, function(parsed_obj) -> term)
        self.counter = 0

    def fresh(self, name, lo=0, hi=255):
        self.counter += 1
        return self.ctx.int("%s#%d" % (name, self.counter), lo, hi)

    def level(self, i, xs, idx, path):
        """returns (value, length, getter) for ONE element of level i; xs: x values of outer levels, idx: index per level"""
        kind, wrap = self.chain[i][0], self.chain[i][1]
        cf = len(self.chain[i]) > 2 and self.chain[i][2]
        last = i == self.depth - 1
        if kind == "FocusedSeq" and not last:
            x = self.kw["fx%d" % i]
        else:
            x = self.fresh("x%d" % i)
        xs2 = xs + [x]
        if last:
            den = resolve(self.ref, self.depth, self.has_arr)
            if den[0] == "x":
                dv = xs2[den[1]]
            elif den[0] == "kw":
                dv = self.kw[den[1]]
            elif den[0] == "index":
                dv = idx[den[1]]
            else:
                dv = self.kw["k"]          # this.n: the rebuilt sibling holds the value build derived, not the supplied one
            junk = self.fresh("junk_n")
            t = self.fresh("t")
            if self.probe == "bytes":
                k = self.ctx.concretize(dv & 3)
                pb = self.ctx.bytes("pb#%d" % self.counter, k)
                plen = k
            elif self.probe == "array":
                k = self.ctx.concretize(dv & 3)
                pb = [self.fresh("pbe") for _ in range(k)]
                plen = k
            else:
                k = self.ctx.concretize(dv & 1)
                pb = self.fresh("pbv") if k else None
                plen = k
            if kind == "Sequence":
                val = [x, junk, None, pb, t]
            else:
                val = dict(x=x, n=junk, pb=pb, t=t)
            length = 1 + 1 + plen + 1

            def check(obj, dv=dv, pb=pb, x=x, t=t, kind=kind):
                ctx = self.ctx
                if kind == "Sequence":
                    ox, on, pc, opb, ot = obj[0], obj[1], obj[2], obj[3], obj[4]
                else:
                    ox, on, pc, opb, ot = obj["x"], obj["n"], obj["pc"], obj["pb"], obj["t"]
                if opb is not None and not isinstance(opb, (int,)) and type(opb).__name__ not in ("SymInt", "bytes", "SymBytes"):
                    opb = list(opb)
                return api.and_terms([ctx.eq(pc, dv), ctx.eq(ox, x), ctx.eq(on, self.kw["k"]), ctx.eq(opb, pb), ctx.eq(ot, t)])
            return val, length, check
        # intermediate level: x then child (possibly repeated)
        cwrap = self.chain[i + 1][1]
        if cf:
            # the child is declared before x: generate x after the child so that names are assigned in stream order
            pass
        reps = 2 if cwrap else 1
        vals, lens, chks = [], 0, []
        for j in range(reps):
            idx2 = dict(idx)
            if cwrap:
                idx2[i + 1] = j
            v, ln, ck = self.level(i + 1, xs2, idx2, path)
            vals.append(v)
            lens += ln
            chks.append(ck)
        childval = vals if cwrap else vals[0]
        if kind == "FocusedSeq":
            val = childval
        elif kind == "Sequence":
            val = [childval, x] if cf else [x, childval]
        else:
            val = dict(x=x, child=childval)
        length = 1 + lens

        def check(obj, kind=kind, x=x, chks=chks, cwrap=cwrap, cf=cf):
            ctx = self.ctx
            terms = []
            if kind == "FocusedSeq":
                child = obj
            elif kind == "Sequence":
                terms.append(ctx.eq(obj[1 if cf else 0], x))
                child = obj[0 if cf else 1]
            else:
                terms.append(ctx.eq(obj["x"], x))
                child = obj["child"]
            if cwrap:
                child = list(child)
                terms.append(len(child) == 2)
                for c, ck in zip(child, chks):
                    terms.append(ck(c))
            else:
                terms.append(chks[0](child))
            return api.and_terms(terms)
        return val, length, check


def _plain(v):
    if isinstance(v, dict):
        return {k: _plain(x) for k, x in dict.items(v) if not (isinstance(k, str) and k.startswith("_"))}
    if isinstance(v, list):
        return [_plain(x) for x in v]
    return v


def harness(ctx, C, p):
    if p.get("kind") == "flags":
        return _flags(ctx, C, p)
    if p.get("kind") == "union":
        return _union(ctx, C, p)
    if p.get("kind") == "lazyflags":
        d = mk(C, "LazyStruct('v'/VarInt, 'fp'/If(this._parsing, Byte), 'fs'/If(this._sizing, Int16ub), 'n'/Struct('q'/If(this._._parsing, Byte), 'w'/If(this._sizing, Int16ub)), 't'/Byte)")
        data = ctx.bytes("data", 6)
        ctx.assume(data[0] < 128)
        r = api.outcome(d.parse, data)
        ctx.check("parse succeeds", r.ok)
        v = r.value
        ctx.check("after a member that had to be parsed because it cannot be sized, the mode flags still say 'parsing' (here and in nested scopes)",
                  api.and_terms([ctx.eq(v["fp"], data[1]), v["fs"] is None, ctx.eq(v["n"]["q"], data[2]), v["n"]["w"] is None, ctx.eq(v["t"], data[3])]))
        return "ok"
    if p.get("kind") == "private":
        # members are scope entries whatever their spelling: a Rebuild declared BEFORE '_payload' sees the supplied value while building
        k, shape = p["scope"], p["shape"]
        src_ = {"flat": "%s('n'/Rebuild(Byte, len_(this._payload)), '_payload'/Bytes(this.n), 't'/Byte)",
                "nested": "%s('hdr'/Struct('len'/Rebuild(Byte, len_(this._._body))), '_body'/Bytes(this.hdr.len), 't'/Byte)",
                "root": "%s('hdr'/Struct('in'/Struct('len'/Rebuild(Byte, len_(this._root._body)))), '_body'/Bytes(this.hdr['in'].len), 't'/Byte)"}[shape] % k
        d = mk(C, src_)
        n = ctx.choice("len", [0, 1, 3])
        body, t = ctx.bytes("body", n), ctx.int("t", 0, 255)
        key = "_payload" if shape == "flat" else "_body"
        v = {key: body, "t": t}
        if shape == "nested":
            v["hdr"] = dict(len=200)
        elif shape == "root":
            v["hdr"] = {"in": dict(len=200)}
        else:
            v["n"] = 200
        rb = api.outcome(d.build, v)
        ctx.check("build resolves the forward reference to the underscore-named member (got %s)" % ("ok" if rb.ok else type(rb.exc).__name__ + ": " + str(rb.exc)[:60]), rb.ok)
        from symx.values import mkbytes
        ctx.check("layout: rebuilt length, the member, the trailer", ctx.eq(rb.value, mkbytes([n]) + body + mkbytes([t])))
        if k == "LazyStruct":
            return "ok"        # parsing cross references between members of a LazyStruct is a documented restriction
        rp = api.outcome(d.parse, rb.value)
        ctx.check("parse of the built bytes succeeds and yields the member", rp.ok and ctx.fork(ctx.eq(rp.value[key], body)) and ctx.fork(ctx.eq(rp.value["t"], t)))
        return "ok"
    if p.get("kind") == "lazyeager":
        # a member that cannot be measured (VarInt, CString) is parsed on the spot; like in Struct it is then visible to later members
        shape = p["shape"]
        src_ = {"flat": "LazyStruct('n'/VarInt, 'd'/Bytes(this.n & 3), 't'/Byte)",
                "nested": "LazyStruct('n'/VarInt, 'in'/Struct('d'/Bytes(this._.n & 3)), 't'/Byte)",
                "root": "LazyStruct('s'/CString('ascii'), 'n'/VarInt, 'in'/Struct('q'/Struct('d'/Bytes(this._root.n & 3))), 't'/Byte)"}[shape]
        lazy, eager = mk(C, src_), mk(C, src_.replace("LazyStruct(", "Struct("))
        data = ctx.bytes("data", 6)
        se, sl = ctx.stream(data), ctx.stream(data)
        re_, rl = api.outcome(eager.parse_stream, se), api.outcome(lazy.parse_stream, sl)
        if not re_.ok:
            return "eager-reject"
        ctx.check("the LazyStruct parses what the Struct parses (a later length refers to a member parsed on the spot) (got %s)" % ("ok" if rl.ok else type(rl.exc).__name__ + ": " + str(rl.exc)[:50]), rl.ok)
        ctx.check("same end position and same trailer", sl.tell() == se.tell() and ctx.fork(ctx.eq(rl.value["t"], re_.value["t"])))
        return "ok"
    if p.get("kind") == "indexdiscard":
        # every repeater publishes the element's position as _index, while building exactly as while parsing, discard or not
        d = mk(C, p["rep"].format("Struct('v'/Bytes(this._index + 1), 'i'/Computed(this._index))"))
        from symx.values import mkbytes
        els = [ctx.bytes("e%d" % i, i + 1) for i in range(3)]
        rb = api.outcome(d.build, [dict(v=e) for e in els])
        ctx.check("build accepts elements laid out by their index (got %s)" % ("ok" if rb.ok else type(rb.exc).__name__ + ": " + str(rb.exc)[:60]), rb.ok)
        ctx.check("layout: element i occupies i + 1 bytes", ctx.eq(rb.value, els[0] + els[1] + els[2]))
        st = ctx.stream(rb.value)
        rp = api.outcome(d.parse_stream, st)
        ctx.check("parse of the built bytes succeeds and consumes all of them", rp.ok and st.tell() == 6)
        if "discard" not in p["rep"]:
            ctx.check("parsed elements carry their index", [x.i for x in rp.value] == [0, 1, 2] and ctx.fork(ctx.eq([x.v for x in rp.value], els)))
        return "ok"
    if p.get("kind") == "indexafter":
        # whatever `_index` denotes after an inner repeater has run, it denotes the same while building: build(parse(x)) lays out x
        d = mk(C, p["outer"].format("Struct('vals'/%s, 'tag'/Bytes(this._index + 1))" % p["inner"]))
        data = ctx.bytes("data", 12)
        st = ctx.stream(data)
        rp = api.outcome(d.parse_stream, st)
        if not rp.ok:
            return "reject"
        used = st.tell()
        rb = api.outcome(d.build, rp.value)
        ctx.check("the parsed value builds (got %s)" % ("ok" if rb.ok else type(rb.exc).__name__ + ": " + str(rb.exc)[:60]), rb.ok)
        ctx.check("build lays the elements out as parse read them", ctx.eq(rb.value, data[:used]))
        return "ok"
    if p.get("kind") == "selectscope":
        d = mk(C, p["source"])
        kw = p["kw"] or {}
        data = ctx.bytes("data", 5)
        st = ctx.stream(data)
        rp = api.outcome(d.parse_stream, st, **kw)
        if not rp.ok:
            return "reject"
        used = st.tell()
        rb = api.outcome(d.build, rp.value, **kw)
        ctx.check("the parsed value builds: names resolve inside the alternatives as they did when parsing (got %s)" % ("ok" if rb.ok else type(rb.exc).__name__ + ": " + str(rb.exc)[:70].replace(chr(10), " ")), rb.ok)
        back = api.outcome(d.parse, rb.value, **kw)
        ctx.check("and the built bytes parse to the same value", back.ok and ctx.fork(ctx.eq(_plain(back.value), _plain(rp.value))))
        return "ok"
    if p.get("kind") == "lazybuild":
        src_ = {"flat": "LazyStruct('count'/Rebuild(VarInt, len_(this.items)), 'items'/Array(this.count, Byte), 'tail'/Byte)",
                "nested": "LazyStruct('hdr'/Struct('n'/Rebuild(VarInt, len_(this._.items))), 'items'/Array(this.hdr.n, Byte), 'tail'/Byte)",
                "root": "LazyStruct('hdr'/Struct('in'/Struct('n'/Rebuild(VarInt, len_(this._root.items)))), 'items'/Array(this.hdr['in'].n, Byte), 'tail'/Byte)"}[p["shape"]]
        d = mk(C, src_)
        n = ctx.choice("n", [0, 1, 3])
        from symx.values import mkbytes
        items, tail = ctx.bytes("items", n), ctx.int("tail", 0, 255)
        data = mkbytes([n]) + items + mkbytes([tail])
        ctx.check("building from a plain dict", ctx.eq(d.build(dict(items=list(items), tail=tail)), data))
        obj = d.parse(data)
        rb = api.outcome(d.build, obj)
        ctx.check("the lazily parsed object builds: members parsed later are in scope for the Rebuild before them (got %s)" % ("ok" if rb.ok else type(rb.exc).__name__ + ": " + str(rb.exc)[:60]), rb.ok)
        ctx.check("and gives the bytes it was parsed from", ctx.eq(rb.value, data))
        return "ok"
    if p.get("kind") == "indexfixed":
        src_ = p["outer"].format("FixedSized(this._index + 2, %s)" % p["inner"])
        d = mk(C, src_)
        vals = [[ctx.int("e%d_%d" % (i, j), 0, 255) for j in range(2)] for i in range(2)]
        rb = api.outcome(d.build, vals)
        ctx.check("build accepts (the length expression resolves to the OUTER repetition index while building)", rb.ok)
        ctx.check("layout: element i occupies i + 2 bytes", len(rb.value) == 2 + 3)
        rp = api.outcome(d.parse, rb.value)
        ctx.check("parse of the built bytes succeeds", rp.ok)
        got = [list(x) for x in rp.value]
        want = [vals[0], vals[1] + ([0] if "GreedyRange" in p["inner"] else [])]
        ctx.check("parse uses the same lengths as build", ctx.eq(got, want))
        return "ok"
    if p.get("kind") == "union-build":
        return _union_build(ctx, C, p)
    chain, ref, probe = [tuple(c) for c in p["chain"]], p["ref"], p["probe"]
    usekw = needs_kw(chain, ref)
    source = level_source(0, chain, ref, probe, usekw)
    d = mk(C, source)
    kw = dict(k=ctx.int("kw.k", 0, 255), x=ctx.int("kw.x", 0, 255)) if usekw else {}
    for i, c in enumerate(chain):
        if c[0] == "FocusedSeq":
            kw["fx%d" % i] = ctx.int("kw.fx%d" % i, 0, 255)
    g = Gen(ctx, chain, ref, probe, kw if usekw else dict(k=7))
    g.callkw = kw
    reps = 2 if chain[0][1] else 1
    vals, total, chks = [], 0, []
    for j in range(reps):
        v, ln, ck = g.level(0, [], {0: j} if chain[0][1] else {}, [])
        vals.append(v)
        total += ln
        chks.append(ck)
    value = vals if chain[0][1] else vals[0]
    ctx.observe("keyword arguments", sorted(kw))
    rb = api.outcome(d.build, value, **kw)
    ctx.check("build accepts the value (every reference resolves while building)", rb.ok)
    data = rb.value
    ctx.observe("bytes", data)
    ctx.check("build emits the layout the resolved reference dictates (%d bytes)" % total, len(data) == total)
    ro = api.outcome(d.parse, data, **kw)
    ctx.check("parse accepts the built bytes (every reference resolves while parsing)", ro.ok)
    obj = ro.value
    if chain[0][1]:
        obj = list(obj)
        ctx.check("repetition count", len(obj) == 2)
        ctx.check("parsing resolves the reference to the same field as building", api.and_terms([ck(o) for ck, o in zip(chks, obj)]))
    else:
        ctx.check("parsing resolves the reference to the same field as building", chks[0](obj))
    rs = api.outcome(d.sizeof, **kw)
    if rs.ok:
        ctx.check("sizeof, when it answers, agrees with the built length", rs.value == len(data))
    return "ok"


UREFS = {"x": "inner", "_.x": "union", "_._.x": "outer_or_kw", "_root.x": "root", "_params.k": "k", "_._params.k": "k", "_root._params.k": "k"}


def _union(ctx, C, p):
    ref, nested, pf = p["ref"], p["nested"], p["pf"]
    inner = "Struct('x'/Byte, 'pc'/Computed(this.%s), 'pb'/Bytes(this.%s & 3))" % (ref, ref)
    u = "Union(%r, 'x'/Int16ub, 'c'/%s)" % (pf, inner)
    src_ = "Struct('x'/Int24ub, 'u'/%s, 'after'/Tell)" % u if nested else u
    d = mk(C, src_)
    data = ctx.bytes("data", 9)
    kw = dict(k=ctx.int("kw.k", 0, 255), x=ctx.int("kw.x", 0, 255))
    off = 3 if nested else 0
    x_outer = (data[0] * 256 + data[1]) * 256 + data[2]
    x_union = data[off] * 256 + data[off + 1]
    x_inner = data[off]
    what = UREFS[ref]
    if what == "inner":
        dv = x_inner
    elif what == "union":
        dv = x_union
    elif what == "outer_or_kw":
        dv = x_outer if nested else kw["x"]
    elif what == "root":
        dv = x_outer if nested else x_union
    else:
        dv = kw["k"]
    r = api.outcome(d.parse, data, **kw)
    ctx.check("parse succeeds (the reference resolves inside Union)", r.ok)
    uo = r.value["u"] if nested else r.value
    k = ctx.concretize(dv & 3)
    ctx.check("inside Union the reference denotes the documented scope", api.and_terms([ctx.eq(uo["c"]["pc"], dv), ctx.eq(uo["c"]["pb"], data[off + 1:off + 1 + k]), ctx.eq(uo["x"], x_union)]))
    if nested:
        want = off if pf is None else (off + 2 if pf in (0, "x") else off + 1 + k)
        ctx.check("the stream continues where parsefrom says", ctx.eq(r.value["after"], want))
    return "ok"


def _union_build(ctx, C, p):
    ref = p["ref"]
    d = mk(C, "Union(None, 'c'/Struct('q'/Byte, 'pb'/Bytes(this.%s & 3)))" % ref)
    kw = dict(k=ctx.int("kw.k", 0, 255), m=ctx.int("kw.m", 0, 255))
    m = ctx.int("m", 0, 255)
    q = ctx.int("q", 0, 255)
    dv = {"_.m": m, "_root.m": m, "_params.k": kw["k"], "_._.m": kw["m"], "q": q, "_root._params.m": kw["m"]}[ref]
    k = ctx.concretize(dv & 3)
    pb = ctx.bytes("pb", k)
    r = api.outcome(d.build, dict(c=dict(q=q, pb=pb), m=m), **kw)
    ctx.check("build succeeds: the reference resolves to the documented scope while building a Union", r.ok)
    ctx.check("layout", ctx.eq(r.value, mkbytes([q]) + pb))
    return "ok"


def _flags(ctx, C, p):
    scope, api_ = p["scope"], p["api"]
    flags = "'fp'/If(this._parsing, Byte), 'fb'/If(this._building, Int16ub), 'fs'/If(this._sizing, Bytes(3)), 'deep'/Struct('q'/If(this._._parsing, Byte), 'r'/If(this._root._building, Int16ub))"
    if scope == "FocusedSeq":
        src_ = "FocusedSeq('s', 's'/Struct(%s))" % flags
    elif scope == "Sequence":
        src_ = "Sequence('s'/Struct(%s))" % flags
    else:
        src_ = "%s('s'/Struct(%s))" % (scope, flags)
    d = mk(C, src_)
    if p.get("compiled"):
        d = d.compile()
    a, b = ctx.int("a", 0, 255), ctx.int("b", 0, 65535)
    inner = dict(fp=None, fb=b, fs=None, deep=dict(q=None, r=b))
    if api_ == "build":
        v = inner if scope == "FocusedSeq" else ([inner] if scope == "Sequence" else dict(s=inner))
        out = d.build(v)
        exp = mkbytes([b // 256, b % 256, b // 256, b % 256])
        ctx.check("while building exactly _building is true, at every depth", ctx.eq(out, exp))
        return "ok"
    if api_ == "parse":
        data = ctx.bytes("data", 2)
        r = d.parse(data)
        s = r if scope == "FocusedSeq" else (r[0] if scope == "Sequence" else r["s"])
        ctx.check("while parsing exactly _parsing is true, at every depth",
                  api.and_terms([ctx.eq(s["fp"], data[0]), s["fb"] is None, s["fs"] is None, ctx.eq(s["deep"]["q"], data[1]), s["deep"]["r"] is None]))
        return "ok"
    r = api.outcome(d.sizeof)
    ctx.check("while sizing exactly _sizing is true", r.ok and r.value == 3)
    return "ok"
