"""C18 -- errors name the member in which parsing or building failed.

Programs: nested Struct / Sequence / Array / Prefixed / FixedSized / Padded / IfThenElse / Switch
shapes with named members (names deliberately repeated across levels, sub-construct objects shared
under two parents, named array elements), seeded.  Symbolic: member values (so extents vary: VarInt and
prefixed members change the layout along different paths).  Oracle: read events computed from the
shape and the values -- the failing field is the first construct whose own stream read ends beyond
the truncation offset; delimiters read their whole region themselves.
Obligations: for EVERY truncation offset of the canonical encoding the error is a StreamError whose
path is `(parsing)` followed by exactly the enclosing member names in order; every leaf made
unbuildable in turn yields `(building) -> names`; sizeof with a missing key yields `(sizeof) -> names`.
"""
import random
from symx import api
from .common import mk

PROPERTY = "C18"
LEVEL = "model_checking"
INSTANCE_BUDGET_S = {"quick": 90, "thorough": 600}
EXHAUSTIVE = {"quick": False, "thorough": False}
BOUNDS = {"quick": dict(shapes="24 hand-written + 70 seeded shapes of depth <= 3", values="every leaf value symbolic (bytes, VarInt < 2**14, selectors)", truncation="every offset of every canonical encoding"),
          "thorough": dict(shapes="24 hand-written + 1200 seeded shapes of depth <= 4", values="as quick", truncation="every offset")}
OUTSIDE = ["message text (only the `path` attribute is compared)", "compiled constructs (no paths by documentation)"]
ASSUMPTIONS = ["oracle: events() below"]

NAMES = ["a", "b", "data", "x", "item", "hdr"]


# shape grammar: ("u8",) ("u16",) ("var",) ("struct", [(name, shape)..]) ("seq", [(name|None, shape)..]) ("array", n, name|None, shape)
#                ("prefixed", shape) ("fixed", n, shape) ("padded", n, shape) ("ite", shape_then, shape_else) [selector = member 'sel' of the enclosing struct]
#                ("switch", {1: shape, 2: shape}) ("shared", id) reference to a shared sub-construct
def rand_shape(rnd, depth, shared):
    r = rnd.random()
    if depth == 0 or r < 0.25:
        return rnd.choice([("u8",), ("u16",), ("var",), ("u8",)])
    if r < 0.55:
        n = rnd.randint(1, 3)
        mem = []
        names = rnd.sample(NAMES, n + 1)
        if rnd.random() < 0.35:
            mem.append(("sel", ("u8",)))
            mem.append((names.pop(), ("ite", rand_shape(rnd, depth - 1, shared), rand_shape(rnd, 0, shared)) if rnd.random() < 0.5
                        else ("switch", {1: rand_shape(rnd, depth - 1, shared), 2: rand_shape(rnd, 0, shared)})))
        for _ in range(n):
            mem.append((names.pop(), rand_shape(rnd, depth - 1, shared)))
        return ("struct", mem)
    if r < 0.65:
        n = rnd.randint(1, 3)
        names = rnd.sample(NAMES, n) + [None, None]
        rnd.shuffle(names)
        return ("seq", [(names[i], rand_shape(rnd, depth - 1, shared)) for i in range(n)])
    if r < 0.77:
        return ("array", rnd.randint(1, 2), rnd.choice([None, None, "item", "data"]), rand_shape(rnd, depth - 1, shared))
    if r < 0.85:
        return ("prefixed", rand_shape(rnd, depth - 1, shared))
    if r < 0.91:
        return ("fixed", 5, rnd.choice([("u8",), ("u16",), ("struct", [("a", ("u8",)), ("b", ("u16",))])]))
    if r < 0.95:
        return ("padded", 4, rnd.choice([("u8",), ("u16",), ("var",)]))
    if shared:
        return ("shared", rnd.randrange(len(shared)))
    return ("u16",)


HAND = [
    ("struct", [("a", ("u8",)), ("b", ("struct", [("c", ("u16",)), ("d", ("var",))])), ("e", ("u8",))]),
    ("struct", [("data", ("struct", [("data", ("struct", [("data", ("u16",)), ("x", ("u8",))])), ("y", ("u8",))])), ("z", ("u8",))]),
    ("struct", [("start", ("shared", 0)), ("end", ("shared", 0))]),
    ("struct", [("p", ("shared", 1)), ("q", ("struct", [("p", ("shared", 1))]))]),
    ("struct", [("items", ("array", 2, "item", ("struct", [("id", ("u8",)), ("v", ("var",))])))]),
    ("struct", [("items", ("array", 2, None, ("struct", [("id", ("u8",)), ("v", ("u16",))])))]),
    ("struct", [("v", ("prefixed", ("struct", [("z", ("u16",)), ("w", ("u8",))]))), ("t", ("u8",))]),
    ("struct", [("f", ("fixed", 5, ("struct", [("a", ("u8",)), ("b", ("u16",))]))), ("t", ("u16",))]),
    ("struct", [("sel", ("u8",)), ("body", ("ite", ("struct", [("x", ("u16",)), ("y", ("u8",))]), ("u8",))), ("t", ("u8",))]),
    ("struct", [("sel", ("u8",)), ("body", ("switch", {1: ("struct", [("a", ("var",))]), 2: ("u16",)})), ("t", ("u8",))]),
    ("seq", [("a", ("u8",)), (None, ("u16",)), ("c", ("struct", [("a", ("u8",))]))]),
    ("struct", [("a", ("padded", 4, ("var",))), ("b", ("u8",))]),
    ("array", 2, "item", ("u16",)),
    ("array", 2, "data", ("struct", [("data", ("u8",))])),
    ("struct", [("hdr", ("struct", [("hdr", ("u8",))])), ("hdr2", ("u8",))]),
    ("struct", [("a", ("array", 2, None, ("array", 2, "item", ("u8",))))]),
    ("struct", [("a", ("prefixed", ("array", 2, "item", ("u8",)))), ("item", ("u8",))]),
    ("struct", [("x", ("struct", [("x", ("shared", 0))])), ("y", ("shared", 0))]),
    ("struct", [("a", ("var",)), ("b", ("var",)), ("c", ("struct", [("a", ("var",))]))]),
    ("u16",), ("var",),
    ("struct", [("only", ("u8",))]),
    ("seq", [(None, ("struct", [("a", ("u8",)), ("b", ("u8",))])), ("b", ("u8",))]),
    ("struct", [("sel", ("u8",)), ("data", ("ite", ("shared", 0), ("shared", 1))), ("data2", ("shared", 0))]),
]
SHARED = [("struct", [("x", ("u8",)), ("y", ("u8",))]), ("struct", [("p", ("u16",))]), ("array", 2, "item", ("u8",))]


# curated scenarios outside the shape grammar: (name, source, operation, lengths or value, expected path as a function of the length,
# bytes that must not occur in the data).  A failure that an enclosing construct swallows (Optional, Select, GreedyRange, Peek,
# StopIf, Union) must leave no trace in the path of a LATER failure; errors raised while computing sizes or reading terminators
# inside parse/build carry the parse/build path.
def _p(*names):
    return " -> ".join(["(parsing)"] + list(names))


def _b(*names):
    return " -> ".join(["(building)"] + list(names))


SCENARIOS = [
    ("swallowed by Optional", "Struct('opt'/Optional(Struct('x'/Int16ub, 'y'/Int16ub)), 'tail'/Int32ub)", "parse", list(range(0, 8)), lambda n: _p("tail"), ()),
    ("swallowed by GreedyRange", "Struct('items'/GreedyRange('item'/Struct('k'/Int16ub)), 'end'/Int16ub)", "parse", list(range(0, 6)), lambda n: _p("end"), ()),
    ("swallowed by Select", "Struct('sel'/Select('a'/Struct('p'/Int32ub), 'b'/Struct('q'/Int16ub)), 't'/Int32ub)", "parse", list(range(0, 6)), lambda n: _p("sel") if n < 2 else _p("t"), ()),
    ("cut short by StopIf", "Struct('inner'/Struct('k'/Byte, StopIf(True), 'v'/Int16ub), 'after'/Int16ub)", "parse", [0, 1, 2], lambda n: _p("inner", "k") if n < 1 else _p("after"), ()),
    ("swallowed by Peek", "Struct('p'/Peek(Struct('deep'/Int32ub)), 'after'/Int16ub)", "parse", [0, 1], lambda n: _p("after"), ()),
    ("swallowed inside Union", "Struct('u'/Union(None, 'a'/Optional(Struct('z'/Int32ub)), 'b'/Byte), 'after'/Int32ub)", "parse", [1, 2, 3], lambda n: _p("after"), ()),
    ("swallowed twice, nested", "Struct('o'/Optional(Struct('i'/Optional(Struct('x'/Int32ub)), 'j'/Int32ub)), 'k'/Array(2, 'e'/Int16ub))", "parse", [0, 1, 2, 3], lambda n: _p("k", "e"), ()),
    ("size of a self-counting VarInt prefix", "Struct('msg'/Struct('body'/Prefixed(VarInt, GreedyBytes, includelength=True)))", "parse", [0, 1, 2, 3], lambda n: _p("msg", "body"), ()),
    ("2-byte text terminator cut mid-unit", "Struct('rec'/Struct('name'/CString('utf_16_le'), 'n'/Byte))", "parse", [0, 1, 2, 3, 4, 5], lambda n: _p("rec", "name"), (0,)),
    ("4-byte terminator cut mid-unit", "Struct('rec'/Struct('blob'/NullTerminated(GreedyBytes, term=b'\\r\\n\\r\\n'), 'n'/Byte))", "parse", [0, 1, 2, 3, 5, 6, 7], lambda n: _p("rec", "blob"), (13,)),
    ("4-byte text terminator", "Struct('rec'/Struct('name'/CString('utf_32_be'), 'n'/Byte))", "parse", [1, 2, 3, 5, 7], lambda n: _p("rec", "name"), (0,)),
    ("prefix announces less than the payload needs", "Struct('rec'/Prefixed(Byte, Struct('head'/Byte, 'tail'/Struct('x'/Byte, 'y'/Int16ub))))", "parse", [3, 4], lambda n: _p("rec", "tail", "y"), (), "03"),
    ("fixed region shorter than its payload", "Struct('rec'/FixedSized(2, Struct('a'/Byte, 'b'/Int16ub)), 't'/Byte)", "parse", [2, 3, 4], lambda n: _p("rec", "b"), ()),
    ("sizeof: context-sized region without its key", "Struct('body'/Struct('blob'/FixedSized(this._._params.n, GreedyBytes)))", "sizeof", None, lambda n: " -> ".join(["(sizeof)", "body", "blob"]), ()),
    ("sizeof: context-sized region, one level", "Struct('blob'/FixedSized(this._params.n, GreedyBytes), 't'/Byte)", "sizeof", None, lambda n: " -> ".join(["(sizeof)", "blob"]), ()),
    ("sizeof: context-sized bytes and padding", "Struct('a'/Struct('p'/Padded(this._._params.n, Byte)), 'b'/Bytes(this._params.m))", "sizeof", None, lambda n: " -> ".join(["(sizeof)", "a", "p"]), ()),
    ("sizeof: condition key missing, unsizable named branch", "Struct('rec'/Struct('value'/IfThenElse(this._._params.flag, 'wide'/VarInt, 'narrow'/Byte)))", "sizeof", None, lambda n: " -> ".join(["(sizeof)", "rec", "value"]), ()),
    ("sizeof: condition key missing, branches of equal size", "Struct('rec'/Struct('value'/IfThenElse(this._._params.flag, 'x'/Int16ub, 'y'/Int16sb)))", "sizeof", None, lambda n: " -> ".join(["(sizeof)", "rec", "value"]), ()),
    ("sizeof: switch key missing", "Struct('rec'/Struct('value'/Switch(this._._params.k, {1: 'a'/Byte, 2: 'b'/Byte})))", "sizeof", None, lambda n: " -> ".join(["(sizeof)", "rec", "value"]), ()),
    ("truncated input from a source that can only read", "Struct('a'/Byte, 'b'/Struct('c'/Int16ub, 'd'/Bytes(2)))", "parse-ro", [0, 1, 2, 3, 4], lambda n: _p("a") if n < 1 else (_p("b", "c") if n < 3 else _p("b", "d")), ()),
    ("build: float32 out of range", "Struct('m'/Struct('f'/Float32b, 'g'/Byte))", "build", dict(m=dict(f=1e39, g=1)), lambda n: _b("m", "f"), ()),
    ("build: float16 out of range", "Struct('m'/Array(2, 'h'/Float16l))", "build", dict(m=[1.0, 70000.0]), lambda n: _b("m", "h"), ()),
    ("build: integer out of range", "Struct('m'/Struct('i'/Int8ub))", "build", dict(m=dict(i=256)), lambda n: _b("m", "i"), ()),
    ("build: alternative swallowed by Select", "Struct('o'/Select('a'/Struct('x'/Int16ub), 'b'/Struct('y'/Int8ub)), 'tail'/Int16ub)", "build", dict(o=dict(y=1), tail=-1), lambda n: _b("tail"), ()),
    ("build: size of a self-counting VarInt prefix", "Struct('msg'/Struct('body'/Prefixed(VarInt, GreedyBytes, includelength=True)))", "build", dict(msg=dict(body=b"ab")), lambda n: _b("msg", "body"), ()),
    ("build: swallowed by Optional then failing", "Struct('opt'/Optional(Struct('x'/Int16ub)), 'tail'/Int16ub)", "build", dict(opt=dict(x=-1), tail=70000), lambda n: _b("tail"), ()),
]


def _scenario(ctx, C, p):
    sc = SCENARIOS[p["i"]]
    name, source, op, arg, want, forbid = sc[:6]
    prefix = bytes.fromhex(sc[6]) if len(sc) > 6 else b""
    d = mk(C, source)
    if op == "sizeof":
        r = api.outcome(d.sizeof)
        ctx.check("sizeof without the key fails with SizeofError", (not r.ok) and isinstance(r.exc, C.SizeofError))
        ctx.check("path %r (got %r)" % (want(0), getattr(r.exc, "path", None)), r.exc.path == want(0))
        return "ok"
    if op == "build":
        r = api.outcome(d.build, arg)
        ctx.check("the build fails with a ConstructError", (not r.ok) and isinstance(r.exc, C.ConstructError))
        ctx.check("path %r (got %r)" % (want(0), getattr(r.exc, "path", None)), r.exc.path == want(0))
        return "ok"
    n = p["n"]
    data = ctx.bytes("data", n)
    for b in data:
        for f in forbid:
            ctx.assume(b != f)
    if op == "parse-ro":
        class ReadOnly:
            """a source that offers read() and nothing else (a pipe, a socket file)"""

            def __init__(self, inner):
                self._inner = inner

            def read(self, n=-1):
                return self._inner.read(n)
        r = api.outcome(d.parse_stream, ReadOnly(ctx.stream(data)))
    else:
        r = api.outcome(d.parse, prefix + data if prefix else data)
    ctx.check("parsing %d bytes fails with a ConstructError" % n, (not r.ok) and isinstance(r.exc, C.ConstructError))
    ctx.check("%d bytes: path %r (got %r)" % (n, want(n), getattr(r.exc, "path", None)), r.exc.path == want(n))
    return "ok"


def instances(tier, seed):
    rnd = random.Random(seed * 2003 + 9)
    shapes = list(HAND)
    for _ in range(70 if tier == "quick" else 1200):
        shapes.append(rand_shape(rnd, 3 if tier == "quick" else 4, SHARED))
    out, seen = [], set()
    for i, s in enumerate(shapes):
        t = source(s, top=True)
        if t in seen:
            continue
        seen.add(t)
        leaves, sels = _count(s)
        cost = leaves * (3 ** sels)
        if cost > (80 if tier == "quick" else 2000):
            continue               # stated bound: shapes whose selector x leaf product exceeds the budget are not enumerated
        out.append(dict(name="trunc #%d %s" % (i, t[:110]), params=dict(kind="trunc", shape=s), expect=["ok"]))
        out.append(dict(name="build #%d %s" % (i, t[:110]), params=dict(kind="build", shape=s)))
    for i, s in enumerate(shapes[:40]):
        out.append(dict(name="sizeof #%d" % i, params=dict(kind="sizeof", shape=s)))
    for i, sc in enumerate(SCENARIOS):
        if sc[2] in ("build", "sizeof"):
            out.append(dict(name="scenario %s" % sc[0], params=dict(kind="scenario", i=i, shape=None), expect=["ok"]))
        else:
            for n in sc[3]:
                out.append(dict(name="scenario %s, %d bytes" % (sc[0], n), params=dict(kind="scenario", i=i, n=n, shape=None), expect=["ok"]))
    return out


def _count(s, mult=1):
    """(number of leaves, number of selector fields) with array multiplicity"""
    s = T(s)
    k = s[0]
    if k == "shared":
        return _count(SHARED[s[1]], mult)
    if k in ("u8", "u16", "var"):
        return mult, 0
    tot_l, tot_s = 0, 0
    subs = []
    if k in ("struct", "seq"):
        for n, x in s[1]:
            l, q = _count(x, mult)
            tot_l += l
            tot_s += q + (mult if n == "sel" else 0)
        return tot_l, tot_s
    if k == "array":
        return _count(s[3], mult * s[1])
    if k == "prefixed":
        return _count(s[1], mult)
    if k in ("fixed", "padded"):
        return _count(s[2], mult)
    if k == "ite":
        a, b = _count(s[1], mult), _count(s[2], mult)
        return a[0] + b[0], a[1] + b[1]
    if k == "switch":
        l = q = 0
        for c, x in s[1].items():
            a = _count(x, mult)
            l += a[0]
            q += a[1]
        return l, q
    return 0, 0


def J(s):
    return s


def T(s):
    if isinstance(s, list):
        if s and isinstance(s[0], str):
            return tuple(T(x) for x in s)
        return [T(x) for x in s]
    if isinstance(s, dict):
        return {int(k): T(v) for k, v in s.items()}
    return s


def source(s, top=False, missing=None):
    s = T(s)
    k = s[0]
    if k == "u8":
        return "Byte"
    if k == "u16":
        return "Int16ub"
    if k == "var":
        return "VarInt"
    if k == "ctx":
        return "Bytes(this.%s)" % s[1]
    if k == "struct":
        return "Struct(%s)" % ", ".join("%r/%s" % (n, source(x)) for n, x in s[1])
    if k == "seq":
        return "Sequence(%s)" % ", ".join(("%r/%s" % (n, source(x))) if n else source(x) for n, x in s[1])
    if k == "array":
        el = source(s[3])
        return "Array(%d, %s)" % (s[1], ("%r/%s" % (s[2], el)) if s[2] else el)
    if k == "prefixed":
        return "Prefixed(Byte, %s)" % source(s[1])
    if k == "fixed":
        return "FixedSized(%d, %s)" % (s[1], source(s[2]))
    if k == "padded":
        return "Padded(%d, %s)" % (s[1], source(s[2]))
    if k == "ite":
        return "IfThenElse(this.sel == 1, %s, %s)" % (source(s[1]), source(s[2]))
    if k == "switch":
        return "Switch(this.sel, {%s}, default=Pass)" % ", ".join("%d: %s" % (c, source(x)) for c, x in sorted(s[1].items()))
    if k == "shared":
        return "SHARED%d" % s[1]
    raise ValueError(s)


def make(C, s):
    extra = {}
    for i, sh in enumerate(SHARED):
        extra["SHARED%d" % i] = mk(C, source(sh))
    return mk(C, source(s), extra)


class Walk:
    """generates a symbolic value for the shape and the read events of its canonical encoding"""

    def __init__(self, ctx):
        self.ctx = ctx
        self.n = 0
        self.events = []      # (end offset, names)
        self.leaves = []      # (names, setter) for the build family
        self.pos = 0

    def fresh(self, lo, hi):
        self.n += 1
        return self.ctx.int("v%d" % self.n, lo, hi)

    def go(self, s, names, env):
        s = T(s)
        k = s[0]
        if k == "shared":
            return self.go(SHARED[s[1]], names, env)
        if k == "u8":
            v = self.fresh(0, 255)
            self.pos += 1
            self.events.append((self.pos, names))
            self.leaves.append(names)
            return v
        if k == "u16":
            v = self.fresh(0, 65535)
            self.pos += 2
            self.events.append((self.pos, names))
            self.leaves.append(names)
            return v
        if k == "var":
            v = self.fresh(0, 2 ** 14 - 1)
            size = 1
            if v >= 128:
                size = 2
            self.pos += size
            self.events.append((self.pos, names))
            self.leaves.append(names)
            return v
        if k == "struct":
            out = {}
            for n, x in s[1]:
                out[n] = self.go(x, names + (n,), out)
            return out
        if k == "seq":
            out = []
            for n, x in s[1]:
                out.append(self.go(x, names + ((n,) if n else ()), env))
            return out
        if k == "array":
            return [self.go(s[3], names + ((s[2],) if s[2] else ()), env) for _ in range(s[1])]
        if k == "prefixed":
            start = self.pos
            self.pos += 1
            mark = len(self.events)
            v = self.go(s[1], names, env)
            inner_end = self.pos
            # the delimiter itself reads the length byte and then the whole region
            del self.events[mark:]
            self.events.append((start + 1, names))
            self.events.append((inner_end, names))
            return v
        if k == "fixed":
            start = self.pos
            mark = len(self.events)
            v = self.go(s[2], names, env)
            del self.events[mark:]
            self.pos = start + s[1]
            self.events.append((self.pos, names))
            return v
        if k == "padded":
            start = self.pos
            v = self.go(s[2], names, env)
            self.pos = start + s[1]
            self.events.append((self.pos, names))
            return v
        if k == "ite":
            if env["sel"] == 1:
                return self.go(s[1], names, env)
            return self.go(s[2], names, env)
        if k == "switch":
            for c, x in sorted(s[1].items()):
                if env["sel"] == c:
                    return self.go(x, names, env)
            return None
        raise ValueError(s)


def path_of(op, names):
    return "(%s)" % op + "".join(" -> %s" % n for n in names)


def harness(ctx, C, p):
    kind = p["kind"]
    if kind == "scenario":
        return _scenario(ctx, C, p)
    shape = T(p["shape"])
    if kind == "sizeof":
        return _sizeof(ctx, C, shape)
    d = make(C, shape)
    w = Walk(ctx)
    v = w.go(shape, (), {})
    if kind == "trunc":
        rb = api.outcome(d.build, v)
        ctx.check("the generated value builds", rb.ok)
        data = rb.value
        ctx.check("oracle and library agree on the encoded length", len(data) == w.pos)
        for k in range(len(data)):
            r = api.outcome(d.parse, data[:k])
            names = None
            for end, nm in w.events:
                if end > k:
                    names = nm
                    break
            ctx.check("a %d-byte prefix of the %d-byte encoding is rejected with StreamError" % (k, len(data)), (not r.ok) and isinstance(r.exc, C.StreamError))
            want = path_of("parsing", names)
            ctx.check("truncation at %d/%d: path %r names the member whose extent contains the offset (got %r)" % (k, len(data), want, getattr(r.exc, "path", None)),
                      r.exc.path == want)
        return "ok"
    if kind == "build":
        if not w.leaves:
            return "no-leaf"
        idx = ctx.concretize(ctx.int("bad", 0, len(w.leaves) - 1))
        w2 = BadWalk(ctx, idx)
        v2 = w2.go(shape, (), {})
        r = api.outcome(d.build, v2)
        if w2.bad_names is None:
            return "unreached"       # the leaf is in a branch not taken for these selector values
        ctx.check("an unbuildable member fails the build with a ConstructError", (not r.ok) and isinstance(r.exc, C.ConstructError))
        want = path_of("building", w2.bad_names)
        ctx.check("unbuildable leaf #%d: path %r lists exactly the enclosing members (got %r)" % (idx, want, getattr(r.exc, "path", None)), r.exc.path == want)
        return "ok"
    raise ValueError(kind)


class BadWalk(Walk):
    """same walk, but leaf number `bad` gets a value outside its domain"""

    def __init__(self, ctx, bad):
        super().__init__(ctx)
        self.bad = bad
        self.count = 0
        self.bad_names = None

    def go(self, s, names, env):
        s2 = T(s)
        if s2[0] in ("u8", "u16", "var"):
            i = self.count
            self.count += 1
            if i == self.bad:
                self.bad_names = names
                self.leaves.append(names)
                return -1 - self.ctx.int("neg", 0, 5)
            if not (names and names[-1] == "sel"):
                return 1          # the value of an ordinary leaf does not influence the path (selectors stay symbolic)
        return super().go(s, names, env)


def _plain(s):
    """shared references expanded, VarInt leaves replaced by fixed-size ones (sizeof stops at the first unsizable member)"""
    s = T(s)
    k = s[0]
    if k == "shared":
        return _plain(SHARED[s[1]])
    if k == "var":
        return ("u16",)
    if k in ("struct", "seq"):
        return (k, [(n, _plain(x)) for n, x in s[1]])
    if k == "array":
        return ("array", s[1], s[2], _plain(s[3]))
    if k == "prefixed":
        return ("prefixed", _plain(s[1]))
    if k in ("fixed", "padded"):
        return (k, s[1], _plain(s[2]))
    if k == "ite":
        return ("ite", _plain(s[1]), _plain(s[2]))
    if k == "switch":
        return ("switch", {c: _plain(x) for c, x in s[1].items()})
    return s


def _sizeof(ctx, C, shape):
    """replace each leaf in turn by Bytes(this.nokey): sizeof must name the enclosing members"""
    shape = _plain(shape)
    leaves = []

    def count(s, names):
        s = T(s)
        k = s[0]
        if k == "shared":
            return count(SHARED[s[1]], names)
        if k in ("u8", "u16", "var"):
            leaves.append(names)
        elif k == "struct":
            for n, x in s[1]:
                count(x, names + (n,))
        elif k == "seq":
            for n, x in s[1]:
                count(x, names + ((n,) if n else ()))
        elif k == "array":
            count(s[3], names + ((s[2],) if s[2] else ()))
        elif k in ("prefixed",):
            count(s[1], names)
        elif k in ("fixed", "padded"):
            count(s[2], names)
        elif k == "ite":
            count(s[1], names)
        elif k == "switch":
            pass
    count(shape, ())
    if not leaves:
        return "no-leaf"
    idx = ctx.concretize(ctx.int("which", 0, len(leaves) - 1))
    state = dict(i=0)

    def repl(s):
        s = T(s)
        k = s[0]
        if k == "shared":
            return repl(SHARED[s[1]])
        if k in ("u8", "u16", "var"):
            i = state["i"]
            state["i"] += 1
            return ("ctx", "nokey") if i == idx else s
        if k == "struct":
            return ("struct", [(n, repl(x)) for n, x in s[1]])
        if k == "seq":
            return ("seq", [(n, repl(x)) for n, x in s[1]])
        if k == "array":
            return ("array", s[1], s[2], repl(s[3]))
        if k == "prefixed":
            return ("prefixed", repl(s[1]))
        if k in ("fixed", "padded"):
            return (k, s[1], repl(s[2]))
        if k == "ite":
            return ("ite", repl(s[1]), s[2])
        return s
    s2 = repl(shape)
    d = mk(C, source(s2))
    r = api.outcome(d.sizeof, sel=1)
    names = leaves[idx]
    inside_fixed = _under_fixed(shape, idx)
    if r.ok:
        ctx.check("sizeof can only answer when a fixed-size delimiter hides the member", inside_fixed)
        return "hidden"
    ctx.check("sizeof with a missing key fails with SizeofError", isinstance(r.exc, C.SizeofError))
    if getattr(r.exc, "path", None) is not None and not _selector_blocks(shape):
        want = path_of("sizeof", names)
        ctx.check("sizeof: path %r lists the enclosing members (got %r)" % (want, r.exc.path), r.exc.path == want or r.exc.path == path_of("sizeof", _struct_catch(names, r.exc.path)))
    return "ok"


def _under_fixed(shape, idx):
    state = dict(i=0, hit=False)

    def walk(s, fixed):
        s = T(s)
        k = s[0]
        if k == "shared":
            return walk(SHARED[s[1]], fixed)
        if k in ("u8", "u16", "var"):
            if state["i"] == idx and fixed:
                state["hit"] = True
            state["i"] += 1
        elif k in ("struct", "seq"):
            for n, x in s[1]:
                walk(x, fixed)
        elif k == "array":
            walk(s[3], fixed)
        elif k == "prefixed":
            walk(s[1], fixed)
        elif k in ("fixed", "padded"):
            walk(s[2], True)
        elif k == "ite":
            walk(s[1], fixed)
    walk(shape, False)
    return state["hit"]


def _selector_blocks(shape):
    return "sel" in repr(shape)


def _struct_catch(names, got):
    """Struct/Sequence translate KeyError into a SizeofError carrying THEIR path: accept any prefix chain"""
    parts = got.split(" -> ")[1:]
    return tuple(parts) if tuple(parts) == names[:len(parts)] else names
