"""C03 -- encodings match an independent executable specification (DESIGN 7, C03).

For each core-fragment construct (program, enumerated) and *every* value / byte string within
the stated bounds (symbolic): build emits exactly the reference bytes and accepts iff the
reference accepts; parse returns the reference value, consumes the reference number of bytes
and rejects iff the reference rejects (with a ConstructError of the documented kind).
"""
import random
from symx import api
from symx.values import mkbytes
from . import ref
from .common import src, mk, domain, FMT, T, J, name_info

PROPERTY = "C03"
LEVEL = "model_checking"
INSTANCE_BUDGET_S = {"quick": 60, "thorough": 300}
EXHAUSTIVE = {"quick": False, "thorough": False}
BOUNDS = {
    "quick": dict(integers="full native range of every public name plus one extra bit on both sides (rejected values included)",
                  bytesinteger_lengths=[1, 2, 3, 5, 8, 16], varint="values < 2**35 and -4..-1; parse of any 0..5 bytes",
                  parse_buffers="every byte string of length size-1, size, size+1 (leaves) / 0..6 (composites)",
                  composites="curated depth<=2 list (see instances)"),
    "thorough": dict(integers="as quick", bytesinteger_lengths=[1, 2, 3, 4, 5, 7, 8, 9, 16], varint="values < 2**63; parse of any 0..10 bytes",
                     parse_buffers="leaves size-1..size+1, composites 0..8", composites="curated + seeded sample of generated depth<=2 specs"),
}
OUTSIDE = ["strings longer than 2 code points and codecs other than ascii / utf-8 / utf-16-le / utf-32-be (the codecs themselves are modelled, not re-derived)", "floats: checked in c03 float instances against the z3 IEEE model of struct; NaN payloads excluded",
           "depth > 2 composites", "Pointer/Peek/RawCopy/Tell (C08, C09, C14 have their own oracles)"]
ASSUMPTIONS = ["reference semantics checks/ref.py (written from the documentation) is the oracle",
               "public-name table (size, signedness, byte order) is derived from the naming convention, not from core.py"]


def _leaf_specs(tier):
    out = []
    for name in sorted(FMT):
        out.append(("fmt", name))
    lens = BOUNDS[tier]["bytesinteger_lengths"]
    for n in lens:
        for signed in (False, True):
            for swapped in (False, True):
                out.append(("bytesint", n, signed, swapped))
    out += [("varint",), ("zigzag",), ("flag",), ("bytes", 3), ("const", "4d5a"), ("constv", 258, ("fmt", "Int16ul"))]
    return out


ENUM3 = [["one", 1], ["two", 2], ["big", 200]]
FLAGS3 = [["a", 1], ["b", 4], ["c", 6]]
MAP2 = [["x", 0], ["y", 255]]


def _composites(tier):
    I8, I16l, I16b, V = ("fmt", "Int8ub"), ("fmt", "Int16ul"), ("fmt", "Int16sb"), ("varint",)
    GB = ("greedybytes", 2)
    out = [
        ("enum", I8, ENUM3), ("enum", ("fmt", "Int16sl"), [["neg", -2], ["z", 0]]),
        ("flagsenum", I8, FLAGS3), ("flagsenum", ("fmt", "Int16ub"), [["lo", 1], ["hi", 32768], ["mix", 257]]),
        ("mapping", I8, MAP2), ("oneof", I8, [1, 2, 250]), ("noneof", ("fmt", "Int8sb"), [-1, 0]),
        ("hex", I16l), ("default", I8, 7),
        ("struct", [["a", I8], ["b", I16l], ["c", V]]),
        ("struct", [["n", I8], ["d", ("bytesctx", "n", 3)], ["t", I8]]),
        ("struct", [["n", I8], ["items", ("arrayctx", "n", 3, I16b)], ["t", ("flag",)]]),
        ("struct", [["k", I8], ["v", ("ifthenelse", "k", I16l, I8)]]),
        ("struct", [["k", I8], ["v", ("if", "k", I16l)], ["z", I8]]),
        ("struct", [["k", I8], ["v", ("switch", "k", [[1, I8], [2, I16b]], None)], ["z", I8]]),
        ("struct", [["k", I8], ["v", ("switch", "k", [[1, I8], [7, V]], I16l)]]),
        ("struct", [["sig", ("const", "ab")], ["len", ("rebuildlen", I8, "body")], ["body", ("bytesctx", "len", None)]]),
        ("struct", [["w", I8], ["v", ("bytesintctx", "w", True)], ["t", I8]]), ("struct", [["w", I8], ["v", ("bytesintctx", "w", False)]]),
        ("adapt", I8, "inc"), ("adapt", I8, "xor"), ("adapt", ("fmt", "Int16sb"), "cls"), ("struct", [["n", ("adapt", I8, "inc")], ["d", ("bytesctx", "n", 3)]]),
        ("mapping", I8, [[None, 255], [False, 0], [True, 1]]), ("mapping", I8, [["", 0], [0, 7]]),
        ("seq", [("nullterminated", ("greedybytes", 2), "00", True, False, True), ("greedybytes", 1)]), ("seq", [("nullterminated", ("greedybytes", 1), "00", False, False, True), I8]),
        ("struct", [["s", ("nullterminated", ("greedybytes", 1), "ff", True, True, True)], ["t", I8]]),
        ("optional", ("struct", [["a", I8], ["b", I8]])), ("seq", [I8, ("optional", ("struct", [["a", ("fmt", "Int16ub")], ["b", I8]])), I8]),
        ("select", [("struct", [["a", ("fmt", "Int32ub")], ["b", I8]]), ("struct", [["a", I8]])]), ("prefixed", I8, ("optional", ("struct", [["a", I8], ["b", I8]])), False),
        ("seq", [I8, V, ("flag",)]),
        ("focusedseq", "b", [["a", ("const", "00")], ["b", I16l], ["c", ("const", "ff")]]),
        ("array", 3, I16b), ("array", 0, I8), ("array", 2, V),
        ("greedyrange", I16l, 2), ("greedyrange", V, 2), ("greedyrange", ("constv", 7, I8), 2),
        ("prefixedarray", I8, I16b, 2), ("prefixedarray", V, I8, 3), ("prefixedarray", ("fmt", "Int8sb"), I8, 2),
        ("prefixedarray", ("fmt", "Int16sl"), ("flag",), 1),
        ("struct", [["n", ("fmt", "Int8sb")], ["items", ("arrayctx", "n", None, I8)], ["t", I8]]),
        ("struct", [["n", ("fmt", "Int8sb")], ["d", ("bytesctx", "n", None)], ["t", I8]]),
        ("struct", [["n", ("fmt", "Int16sb")], ["d", ("prefixed", ("fmt", "Int8sb"), ("greedybytes", 1), False)]]),
        ("repeatuntil", 0, I8, 3),
        ("prefixed", I8, GB, False), ("prefixed", I8, GB, True), ("prefixed", V, ("greedyrange", I16b, 2), False),
        ("prefixed", ("fmt", "Int16sb"), GB, False), ("prefixed", ("fmt", "Int16ul"), ("greedybytes", 1), True),
        ("prefixed", ("fmt", "Int8sb"), ("greedybytes", 1), True),
        ("fixedsized", 4, GB), ("fixedsized", 3, V), ("fixedsized", 4, ("nullstripped", GB, "00")),
        ("nullterminated", GB, "00", False, True, True), ("nullterminated", GB, "00", True, True, True),
        ("nullterminated", GB, "00", False, False, True), ("nullterminated", GB, "ff", False, True, False),
        ("nullterminated", GB, "0000", False, True, True), ("nullterminated", ("greedyrange", I8, 2), "00", False, True, True),
        ("nullstripped", GB, "00"), ("nullstripped", GB, "2020"), ("nullstripped", ("greedyrange", I16l, 1), "00"),
        ("padded", 4, V, "00"), ("padded", 3, I16l, "ee"), ("padded", 2, ("prefixed", I8, ("greedybytes", 1), False), "00"),
        ("aligned", 4, V, "00"), ("aligned", 2, I8, "cc"), ("aligned", 3, ("prefixed", I8, ("greedybytes", 2), False), "00"),
        ("select", [("constv", 1, I8), I16l]), ("select", [I16b, I8]), ("optional", I16l),
        ("seq", [("optional", ("constv", 5, I8)), I8]),
        ("byteswapped", ("bytesint", 3, True, False)), ("byteswapped", ("struct", [["a", I8], ["b", I16b]])),
        ("bitsswapped", I16b), ("xor", 90, GB), ("xor", "0102", GB), ("xor", "00", ("greedyrange", I8, 2)),
        ("bitwise", ("struct", [["a", ("bitsint", 3, False, False)], ["b", ("bitsint", 5, True, False)]])),
        ("bitwise", ("struct", [["a", ("bitsint", 1, False, False)], ["b", ("bitsint", 4, False, False)], ["f", ("flag",)],
                                ["c", ("bitsint", 10, True, False)]])),
        ("bitwise", ("bitsint", 16, True, True)), ("bitwise", ("array", 8, ("bitsint", 1, False, False))),
        ("bitwise", ("seq", [("bitsint", 8, False, False), ("bitsint", 4, False, False), ("bitsint", 4, True, False)])),
        ("struct", [["h", ("bitwise", ("struct", [["x", ("bitsint", 4, False, False)], ["y", ("bitsint", 4, False, False)]]))], ["t", I16l]]),
    ]
    for e in ("ascii", "utf8", "utf_16_le", "utf_32_be"):
        out += [("pstring", 4, e, 1), ("cstring", e, 1), ("pascal", I8, e, 1), ("greedystring", e, 1)]
    out += [("pstring", 3, "utf8", 2), ("cstring", "utf8", 2), ("pascal", V, "utf8", 2), ("pstring", 6, "utf_16_le", 2), ("pascal", ("fmt", "Int16ul"), "utf_16_le", 1),
            ("struct", [["name", ("cstring", "utf8", 1)], ["t", I8]]), ("struct", [["s", ("pstring", 2, "ascii", 2)], ["t", I8]])]
    return out


def _parse_lengths(spec, tier):
    z = ref.static_size(spec)
    if z is not None and spec[0] in ("fmt", "bytesint", "bytes", "const", "constv", "flag"):
        return sorted({max(0, z - 1), z, z + 1})
    if spec[0] in ("varint", "zigzag"):
        return list(range(0, 6 if tier == "quick" else 11))
    top = 6 if tier == "quick" else 8
    if z is not None:
        return sorted({0, max(0, z - 1), z, z + 1})
    return list(range(0, top + 1))


def instances(tier, seed):
    out = []
    specs = _leaf_specs(tier) + _composites(tier)
    for s in specs:
        name = src(s)
        shape = [x[-1] for x in __import__("checks.common", fromlist=["walk"]).walk(s) if x[0] in ("pstring", "cstring", "pascal", "greedystring")]
        if shape:
            name += "  [text of %s code points]" % "/".join(str(n) for n in shape)
        exp_b = ["accept"]
        out.append(dict(name="build  " + name, params=dict(op="build", spec=J(s), tier=tier), expect=exp_b))
        for n in _parse_lengths(s, tier):
            out.append(dict(name="parse%-2d %s" % (n, name), params=dict(op="parse", spec=J(s), n=n, tier=tier)))
    for k in sorted(SPECIALS):
        out.append(dict(name="special  " + k, params=dict(op="special", which=k, tier=tier), expect=["accept"]))
    # class-constructor spelling of every public integer name
    for name in sorted(FMT):
        out.append(dict(name="ctor   " + name, params=dict(op="ctor", name=name, tier=tier), expect=["accept"]))
    return out


def _kind_ok(C, exc, kind):
    names = ref.KIND_CLASSES.get(kind)
    if names is None:
        return isinstance(exc, C.ConstructError)
    return any(isinstance(exc, getattr(C, n)) for n in names)


NESTED_KINDS = ("select", "optional", "greedyrange")


def _sp_const_ctx(ctx, C):
    """a constant over a field whose width and byte order come from the context: every build encodes it for the context of THAT build"""
    d = mk(C, "Struct('width'/Byte, 'little'/Flag, 'magic'/Const(0x0102, BytesInteger(this.width, swapped=this.little)))")
    s2 = mk(C, "Sequence('n'/Byte, Const(1, BytesInteger(this.n)))")
    for rnd in (1, 2):
        w, little = ctx.choice("w%d" % rnd, [2, 3, 4]), ctx.choice("l%d" % rnd, [0, 1])
        want = mkbytes([w, little] + ref.enc_int(0x0102, w, False, "little" if little else "big"))
        r = api.outcome(d.build, dict(width=w, little=bool(little)))
        ctx.check("build %d emits the constant in this build's width and byte order" % rnd, r.ok and ctx.fork(ctx.eq(r.value, want)))
        back = api.outcome(d.parse, want)
        ctx.check("parse %d accepts that encoding" % rnd, back.ok and back.value.magic == 0x0102)
        r = api.outcome(s2.build, [w, None])
        ctx.check("Sequence build %d" % rnd, r.ok and ctx.fork(ctx.eq(r.value, mkbytes([w] + [0] * (w - 1) + [1]))))
    return "accept"


def _sp_ragged_bits(ctx, C):
    """a bit region whose width is not a whole number of bytes has no byte encoding: parse rejects every input"""
    for src_ in ("Bitwise(Nibble)", "Bitwise(BitsInteger(12))", "BitStruct('a'/Nibble, 'b'/BitsInteger(7))", "BitStruct('flag'/Bit, 'value'/BitsInteger(16, signed=True))",
                 "BitStruct('a'/Octet, 'b'/Bit, 'c'/Padding(2))", "Bitwise(Array(3, BitsInteger(3)))"):
        d = mk(C, src_)
        for n in (1, 2, 3):
            data = ctx.bytes("data%d %s" % (n, src_), n)
            r = api.outcome(d.parse, data)
            ctx.check("%s rejects %d bytes with a ConstructError (got %s)" % (src_, n, "a value" if r.ok else type(r.exc).__name__), (not r.ok) and isinstance(r.exc, C.ConstructError))
    return "accept"


def _sp_keyword_members(ctx, C):
    """members declared as keyword arguments are laid out in declaration order"""
    v, ln, fl = ctx.int("version", 0, 65535), ctx.int("length", 0, 255), ctx.int("flags", 0, 2 ** 24 - 1)
    d = mk(C, "Struct(version=Int16ub, length=Int8ub, flags=Int24ul)")
    wire = mkbytes(ref.enc_int(v, 2, False, "big") + [ln] + ref.enc_int(fl, 3, False, "little"))
    ctx.check("Struct(**kw) builds in declaration order", ctx.eq(d.build(dict(version=v, length=ln, flags=fl)), wire))
    data = ctx.bytes("data", 6)
    got = d.parse(data)
    ctx.check("Struct(**kw) parses in declaration order",
              api.and_terms([ctx.eq(got.version, data[0] * 256 + data[1]), ctx.eq(got.length, data[2]), ctx.eq(got.flags, data[3] + data[4] * 256 + data[5] * 65536)]))
    ctx.check("and lists its members in that order", [k for k in got.keys() if not k.startswith("_")] == ["version", "length", "flags"])
    d = mk(C, "Sequence(y=Int16ub, x=Int8ub)")
    ctx.check("Sequence(**kw) builds in declaration order", ctx.eq(d.build([v, ln]), mkbytes(ref.enc_int(v, 2, False, "big") + [ln])))
    d = mk(C, "Struct('magic'/Const(b'MZ'), tag=Int8ub, body=Int16ul)")
    ctx.check("positional members come first, keyword members after them in order", ctx.eq(d.build(dict(tag=ln, body=v)), mkbytes([0x4d, 0x5a, ln] + ref.enc_int(v, 2, False, "little"))))
    d = mk(C, "BitStruct(hi=Nibble, flag=Bit, pad=Padding(1), lo=BitsInteger(2))")
    b = ctx.int("b", 0, 255)
    got = d.parse(mkbytes([b]))
    ctx.check("BitStruct(**kw) parses in declaration order", api.and_terms([ctx.eq(got.hi, b >> 4), ctx.eq(got.flag, (b >> 3) & 1), ctx.eq(got.lo, b & 3)]))
    d = mk(C, "Struct(size=Int8ub, data=Bytes(this.size))")
    k = ctx.choice("size", [0, 1, 3])
    body = ctx.bytes("body", k)
    ctx.check("a later keyword member sees an earlier one", ctx.eq(d.build(dict(size=k, data=body)), mkbytes([k]) + body))
    return "accept"


SPECIALS = {"constant over a context-sized field, built twice on one instance": _sp_const_ctx,
            "bit regions that are not a whole number of bytes are rejected": _sp_ragged_bits,
            "keyword-declared members keep their declaration order": _sp_keyword_members}


def harness(ctx, C, p):
    op = p["op"]
    if op == "ctor":
        return _ctor(ctx, C, p)
    if op == "special":
        return SPECIALS[p["which"]](ctx, C)
    spec = T(p["spec"])
    d = mk(C, src(spec))
    if op == "build":
        v = domain(ctx, spec, "v", p["tier"], wide=True)
        ctx.observe("value", v)
        ri = api.outcome(d.build, v)
        try:
            exp = ref.enc(spec, v)
        except ref.Reject as e:
            ctx.check("build must reject what the reference rejects (%s)" % e.kind, not ri.ok)
            ctx.check("rejection is a ConstructError", isinstance(ri.exc, C.ConstructError))
            ctx.check("rejection kind %s" % e.kind, _kind_ok(C, ri.exc, e.kind))
            return "reject"
        ctx.check("build must accept what the reference accepts", ri.ok)
        ctx.observe("bytes", ri.value)
        ctx.check("build bytes equal reference bytes", ctx.eq(ri.value, mkbytes(exp)))
        return "accept"
    if op == "parse":
        data = ctx.bytes("data", p["n"])
        if 0 < p["n"] <= 3:
            # an earlier (possibly failing) parse of unrelated input on the same instance must not influence this one
            api.outcome(d.parse, ctx.bytes("earlier", p["n"]))
        st = ctx.stream(data)
        ri = api.outcome(d.parse_stream, st)
        try:
            val, newpos = ref.dec(spec, list(data), 0)
        except ref.Reject as e:
            ctx.check("parse must reject what the reference rejects (%s)" % e.kind, not ri.ok)
            ctx.check("rejection is a ConstructError", isinstance(ri.exc, C.ConstructError))
            ctx.check("rejection kind %s" % e.kind, _kind_ok(C, ri.exc, e.kind))
            return "reject"
        ctx.check("parse must accept what the reference accepts", ri.ok)
        ctx.observe("value", ri.value)
        ctx.check("parsed value equals reference value", ctx.eq(ri.value, val))
        ctx.check("bytes consumed equal reference", st.tell() == newpos)
        return "accept"
    raise ValueError(op)


def _ctor(ctx, C, p):
    """the public name and the class-constructor spelling denote the same construct"""
    name = p["name"]
    size, signed, order = name_info(name)
    if size == 3:
        import sys
        alt = C.BytesInteger(3, signed=signed, swapped=(order == "little"))
    else:
        ch = {1: "b", 2: "h", 4: "l", 8: "q"}[size]
        e = {"b": ">", "l": "<", "n": "="}[FMT[name][2]]
        alt = C.FormatField(e, ch if signed else ch.upper())
    d = getattr(C, name)
    lo, hi = (-(1 << (8 * size - 1)), (1 << (8 * size - 1)) - 1) if signed else (0, (1 << (8 * size)) - 1)
    v = ctx.int("v", lo - 2, hi + 2)
    r1, r2 = api.outcome(d.build, v), api.outcome(alt.build, v)
    ctx.check("both spellings accept/reject together", r1.ok == r2.ok)
    if r1.ok:
        ctx.check("both spellings emit the same bytes", ctx.eq(r1.value, r2.value))
        exp = ref.enc_int(v, size, signed, order)
        ctx.check("bytes equal reference", ctx.eq(r1.value, mkbytes(exp)))
    data = ctx.bytes("data", size)
    ctx.check("both spellings parse alike", ctx.eq(d.parse(data), alt.parse(data)))
    ctx.check("sizeof", d.sizeof() == size)
    return "accept" if r1.ok else "reject"
