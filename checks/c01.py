"""C01 -- build then parse returns the value that was built (symmetry).

Programs: constructs generated from the combinator grammar (all leaves, every one-level
wrapping of every leaf, seeded sample of two-level wrappings; checks/common.generate).
Symbolic: every scalar of the value (full native range), byte contents, flags, selector and
length fields.  Obligations on every path: build accepts the value; parse accepts the built
bytes and consumes all of them; every member supplied is equal in the parsed object; derived
members (Const, Rebuild, Default, Computed, Tell) hold their defining value; building the parsed
object reproduces the bytes.  The oracle is the value itself.
"""
from symx import api
from . import common
from .common import src, mk, domain, T, J, generate, is_greedy

PROPERTY = "C01"
LEVEL = "model_checking"
INSTANCE_BUDGET_S = {"quick": 90, "thorough": 600}
EXHAUSTIVE = {"quick": False, "thorough": False}
BOUNDS = {
    "quick": dict(programs="14 leaves, all 1-level wrappings (27 wrappers), seeded sample of 150 2-level wrappings", integers="full native range",
                  varint="< 2**35", lists="0..2 elements (shape is part of the program)", byte_payloads="0..3 bytes"),
    "thorough": dict(programs="as quick with 1500 2-level wrappings", integers="full native range", varint="< 2**63", lists="0..2", byte_payloads="0..3"),
}
OUTSIDE = ["NullTerminated(include=True) and (consume=False): build appends the terminator regardless, so they are not symmetric by design (their parse side is covered by C03/C08)",
           "strings and floats (stage 2)", "nesting depth > 2 wrappers over a leaf", "values that do not round-trip by design are excluded by assumption: "
           "integers that have an Enum label, payloads containing their terminator"]
ASSUMPTIONS = ["value domains: checks/common.domain with STRICT (documented non-symmetric values excluded)"]


GB = ("greedybytes", 3)
CURATED = [
    ("nullterminated", GB, "00", False, True, True), ("nullterminated", GB, "ff", False, True, True),
    ("nullterminated", ("greedybytes", 2), "0d0a", False, True, True), ("nullterminated", ("greedybytes", 4), "0d0a", False, True, True),
    ("struct", (("s", ("nullterminated", GB, "00", False, True, True)), ("n", common.I16l))),
    ("fixedsized", 5, ("nullstripped", GB, "00")), ("struct", (("a", ("fixedsized", 4, ("nullstripped", ("greedybytes", 2), "0000"))), ("b", common.I8))),
    ("prefixed", common.VAR, GB, False), ("prefixed", common.I8, ("greedybytes", 0), True),
    ("struct", (("sig", ("const", "89504e47")), ("len", ("rebuildlen", common.I16b, "body")), ("body", ("bytesctx", "len", None)), ("crc", common.I32))),
    ("struct", (("a", common.I8), ("rest", GB))), ("seq", (common.I8, ("optional", ("constv", 7, common.I8)))),
    ("select", (("struct", (("tag", ("constv", 1, common.I8)), ("v", common.I16b))), ("struct", (("tag", ("constv", 2, common.I8)), ("w", common.VAR))))),
    ("pstring", 5, "utf_16_le", 1), ("pstring", 13, "utf_16_le", 2), ("pstring", 7, "utf_32_be", 1), ("pstring", 3, "utf_16_le", 1),
    ("struct", (("s", ("pstring", 5, "utf_16_le", 2)), ("t", common.I8))),
    ("flagsenum", common.I8, (("read", 1), ("write", 2), ("readwrite", 3), ("x", 16))),
    ("adapt", common.I16b, "inc"), ("adapt", common.I8, "xor"), ("adapt", ("fmt", "Int16sb"), "cls"), ("adapt", common.VAR, "inc"),
    ("struct", (("n", ("adapt", common.I8, "inc")), ("d", ("bytesctx", "n", 3)), ("t", ("adapt", ("fmt", "Int32sl"), "cls")))),
    ("array", 2, ("adapt", common.I16l, "xor")), ("prefixed", ("adapt", common.I8, "inc"), GB, False),
    ("struct", (("s", ("select", (("struct", (("a", common.I32), ("b", common.I16b), ("c", common.I8))), ("struct", (("a", common.I8),))))), ("rest", ("greedybytes", 1)))),
    ("prefixed", common.I8, ("select", (("struct", (("a", common.I32), ("b", common.I16b))), ("struct", (("a", common.I8),)))), False),
    ("repeatuntil", 0, common.I8, 3), ("struct", (("x", common.I8), ("y", ("computed", "x")), ("z", common.I8))),
    ("aligned", 4, ("prefixed", common.I8, ("greedybytes", 2), False), "00"), common.BITS16,
    ("struct", (("hdr", common.BITS16), ("items", ("arrayctx", "hdr_n", None, common.I8)))) if False else ("array", 2, common.BITS_S),
]


# constructs outside the spec grammar: (source, value builder).  Each value builder returns (value to build, function comparing the
# parsed object with it); symmetry is the whole obligation, so no reference semantics is needed.
def _v_int(lo, hi):
    return lambda ctx: ctx.int("v", lo, hi)


def _v_bytes(n):
    return lambda ctx: ctx.bytes("v", n)


def _v_dict(**fields):
    return lambda ctx: {k: f(_Named(ctx, k)) for k, f in fields.items()}


def _v_list(*items):
    return lambda ctx: [f(_Named(ctx, str(i))) for i, f in enumerate(items)]


def _v_bits(counts):
    return lambda ctx: __import__("symx.values", fromlist=["mkbytes"]).mkbytes([ctx.int("bit%d" % i, 0, 1) for i in range(ctx.choice("nbits", counts))])


class _Derived:
    """a value whose derived members are supplied as None: `build` is handed to build(), `want` is what parse must return"""

    def __init__(self, build, want):
        self.build, self.want = build, want


def _v_derived(fn):
    return lambda ctx: _Derived(*fn(ctx))


class _Named:
    """prefixes the names of nested symbolic inputs"""

    def __init__(self, ctx, prefix):
        self.ctx, self.prefix = ctx, prefix

    def int(self, name, lo, hi):
        return self.ctx.int(self.prefix + "." + name, lo, hi)

    def bytes(self, name, n):
        return self.ctx.bytes(self.prefix + "." + name, n)

    def choice(self, name, options):
        return self.ctx.choice(self.prefix + "." + name, options)


EXTRA = [
    # byte transforms around value fields (each amount class: bit shift, whole bytes, both; groups 1..4)
    ("ProcessRotateLeft(8, 4, Int32ub)", _v_int(0, 2 ** 32 - 1)), ("ProcessRotateLeft(16, 3, Bytes(3))", _v_bytes(3)), ("ProcessRotateLeft(24, 4, Int32sl)", _v_int(-2 ** 31, 2 ** 31 - 1)),
    ("ProcessRotateLeft(3, 2, Int16ub)", _v_int(0, 65535)), ("ProcessRotateLeft(12, 3, Bytes(6))", _v_bytes(6)), ("ProcessRotateLeft(-8, 3, Bytes(3))", _v_bytes(3)),
    ("ProcessRotateLeft(this._params.a, this._params.g, Bytes(4))", _v_bytes(4)), ("ProcessXor(b'\\x01\\xfe\\x10', Struct('a'/Int16ub, 'b'/Bytes(3)))", _v_dict(a=_v_int(0, 65535), b=_v_bytes(3))),
    ("Struct('h'/Byte, 'x'/Prefixed(Byte, ProcessXor(this._.h if False else this.h, Bytes(2))), 't'/Byte)", _v_dict(h=_v_int(0, 255), x=_v_bytes(2), t=_v_int(0, 255))),
    # variable-size bit regions with a greedy tail that starts inside a byte
    ("BitStruct('n'/Nibble, 'rest'/GreedyBytes)", _v_dict(n=_v_int(0, 15), rest=_v_bits([4, 12]))), ("Bitwise(Sequence(BitsInteger(3), Flag, GreedyRange(BitsInteger(4))))", None, 2),
    ("BitStruct('a'/BitsInteger(6), 'tail'/GreedyRange(BitsInteger(5)))", None, 2),
    # variable-length integers far beyond 64 bits
    ("ZigZag", _v_int(-2 ** 70, 2 ** 70)), ("VarInt", _v_int(0, 2 ** 70)), ("Struct('z'/ZigZag, 't'/Byte)", _v_dict(z=_v_int(-2 ** 64 - 5, -2 ** 63 + 5), t=_v_int(0, 255))),
    # a recursive grammar: the same Prefixed instance is re-entered while it is building
    ("NODE", "tree"),
    # end-relative regions inside a box that does not start at offset 0
    ("Struct('h'/Bytes(2), 'box'/Prefixed(Byte, Struct('body'/OffsettedEnd(-2, GreedyBytes), 'trailer'/Int16ub)), 't'/Byte)", _v_dict(h=_v_bytes(2), box=_v_dict(body=_v_bytes(3), trailer=_v_int(0, 65535)), t=_v_int(0, 255))),
    ("Struct('h'/Byte, 'box'/FixedSized(5, Struct('body'/OffsettedEnd(-1, GreedyBytes), 'trailer'/Byte)))", _v_dict(h=_v_int(0, 255), box=_v_dict(body=_v_bytes(4), trailer=_v_int(0, 255)))),
    # named tuples over sequences and structs, field order different from member order
    ("NamedTuple('size', 'width height', Struct('height'/Int16ub, 'width'/Int16ub))", _v_dict(width=_v_int(0, 65535), height=_v_int(0, 65535))),
    ("NamedTuple('pt', 'x y z', Sequence(Byte, Int16sl, VarInt))", _v_list(_v_int(0, 255), _v_int(-32768, 32767), _v_int(0, 2 ** 21 - 1))),
    ("NamedTuple('pt', ['a', 'b'], Array(2, Int24ub))", _v_list(_v_int(0, 2 ** 24 - 1), _v_int(0, 2 ** 24 - 1))),
    # look-alikes of the core fragment reached through less travelled classes
    ("FocusedSeq('b', 'a'/Const(b'\\x07'), 'b'/Int16sb, 'c'/Const(b'\\x00\\x01'))", _v_int(-32768, 32767)), ("Slicing(Array(4, Byte), 4, 1, 3, empty=0)", _v_list(_v_int(0, 255), _v_int(0, 255))),
    ("Indexing(Array(3, Int16ub), 3, 1, empty=0)", _v_int(0, 65535)), ("Struct('t'/Int8ub, 'u'/Union(0, 'raw'/Int16ub, 'lo'/Byte), 'e'/Byte)", None),
    ("LazyBound(lambda: Int24ub)", _v_int(0, 2 ** 24 - 1)), ("Struct('n'/Byte, 'v'/LazyBound(lambda: Bytes(this.n & 3)))", None),
    ("Transformed(Bytes(3), lambda b: b[::-1], 3, lambda b: b[::-1], 3)", _v_bytes(3)), ("Restreamed(Bytes(2), lambda b: bytes(reversed(b)), 2, lambda b: bytes(reversed(b)), 2, lambda n: n)", _v_bytes(2)),
    ("StopIf(this._params.stop) >> Byte", None), ("Sequence('a'/Byte, StopIf(this.a == 0), 'b'/Byte)", None, 2),
    # derived members (Default, Const, Rebuild) supplied as None, with a later sibling whose layout depends on them: Sequence and Struct
    ("Sequence('n'/Default(Byte, 2), 'items'/Array(this.n, Byte))", _v_derived(lambda ctx: (lambda a, b: ([None, [a, b]], [2, [a, b]]))(ctx.int("i0", 0, 255), ctx.int("i1", 0, 255)))),
    ("Sequence('k'/Const(1, Byte), 'v'/IfThenElse(this.k == 1, Int16ub, Byte), 't'/Byte)", _v_derived(lambda ctx: (lambda a, t: ([None, a, t], [1, a, t]))(ctx.int("v", 0, 65535), ctx.int("t", 0, 255)))),
    ("Sequence('w'/Default(Byte, this._params.w), 'v'/Switch(this.w, {1: Byte, 2: Int16ub}, default=Int24ub))", _v_derived(lambda ctx: (lambda a: ([None, a], [ctx.kw["w"], a]))(ctx.int("v", 0, 255)))),
    ("Sequence('len'/Rebuild(Byte, this._params.n), 'body'/Bytes(this.len), 't'/Byte)", _v_derived(lambda ctx: (lambda b, t: ([None, b, t], [ctx.kw["n"], b, t]))(ctx.bytes("body", 2), ctx.int("t", 0, 255)))),
    ("Struct('n'/Default(Byte, 2), 'items'/Array(this.n, Byte))", _v_derived(lambda ctx: (lambda a, b: (dict(items=[a, b]), dict(n=2, items=[a, b])))(ctx.int("i0", 0, 255), ctx.int("i1", 0, 255)))),
]


def instances(tier, seed):
    specs = generate(tier, seed, depth2=150 if tier == "quick" else 1500) + [T(J(x)) for x in CURATED]
    out, seen = [], set()
    for s in specs:
        if src(s) in seen:
            continue
        seen.add(src(s))
        out.append(dict(name=src(s), params=dict(spec=J(s), tier=tier), expect=["ok"]))
    for i, e in enumerate(EXTRA):
        source, vb = e[0], e[1]
        out.append(dict(name="extra  " + source, params=dict(extra=i, tier=tier), expect=["ok"]))
    return out


def expect_terms(ctx, s, v, obj, out, env=None):
    """obligations relating the parsed object to the value built (and derived members to their definition)"""
    s = T(s)
    k = s[0]
    if k == "const":
        out.append(ctx.eq(obj, bytes.fromhex(s[1])))
        return
    if k == "constv":
        out.append(ctx.eq(obj, s[1]))
        return
    if k == "select":
        # the value was generated for one alternative; the parsed object must satisfy that alternative's expectation
        # or, for derived alternatives (Const), hold the constant
        if v is None:
            out.append(api.or_terms([ctx.eq(obj, x[1]) for x in s[1] if x[0] == "constv"] or [False]))
        elif isinstance(v, dict):
            for x in s[1]:
                if x[0] == "struct" and set(n for n, y in x[1] if y[0] not in ("constv", "const")) == set(v):
                    return expect_terms(ctx, x, v, obj, out, env)
            out.append(False)
        else:
            out.append(ctx.eq(obj, v))
        return
    if k == "struct":
        if not isinstance(obj, dict):
            out.append(False)
            return
        for n, x in s[1]:
            if not n:
                continue
            if n not in obj:
                out.append(False)
                continue
            o = obj[n]
            if x[0] == "const":
                out.append(ctx.eq(o, bytes.fromhex(x[1])))
            elif x[0] == "constv":
                out.append(ctx.eq(o, x[1]))
            elif x[0] == "rebuildlen":
                out.append(ctx.eq(o, len(obj[x[2]])))
            elif x[0] == "computed":
                out.append(ctx.eq(o, obj[x[1]]))
            elif x[0] == "tell":
                pass
            elif x[0] == "default" and (v is None or v.get(n) is None):
                out.append(ctx.eq(o, x[2]))
            else:
                expect_terms(ctx, x, None if v is None else v.get(n), o, out, obj)
        return
    if k in ("seq",):
        for x, a, b in zip(s[1], v, obj):
            expect_terms(ctx, x, a, b, out)
        out.append(len(v) == len(obj))
        return
    if k in ("array", "arrayctx", "greedyrange", "prefixedarray", "repeatuntil"):
        sub = s[2] if k in ("array", "prefixedarray", "repeatuntil") else (s[3] if k == "arrayctx" else s[1])
        out.append(len(v) == len(obj))
        for a, b in zip(v, obj):
            expect_terms(ctx, sub, a, b, out)
        return
    if k == "flagsenum":
        for l, x in s[2]:
            out.append(ctx.eq(obj[l], v[l]))
        return
    if k in ("hex", "oneof", "noneof", "byteswapped", "bitsswapped", "bitwise", "bytewise", "nullstripped", "optional"):
        return expect_terms(ctx, s[1], v, obj, out)
    if k == "nullterminated":
        return expect_terms(ctx, s[1], v, obj, out)
    if k == "default":
        if v is None:
            out.append(ctx.eq(obj, s[2]))
            return
        return expect_terms(ctx, s[1], v, obj, out)
    if k in ("prefixed", "fixedsized", "padded", "aligned", "xor", "pointer"):
        return expect_terms(ctx, s[2], v, obj, out)
    if k == "focusedseq":
        for n, x in s[2]:
            if n == s[1]:
                return expect_terms(ctx, x, v, obj, out)
    if k == "if":
        if v is None:
            out.append(obj is None)
            return
        return expect_terms(ctx, s[2], v, obj, out, env)
    if k == "ifthenelse":
        return expect_terms(ctx, s[2] if env[s[1]] else s[3], v, obj, out, env)
    if k == "switch":
        from .ref import same
        for c, x in s[2]:
            if same(env[s[1]], c):
                return expect_terms(ctx, x, v, obj, out, env)
        if s[3] is None:
            out.append(obj is None)
            return
        return expect_terms(ctx, s[3], v, obj, out, env)
    out.append(ctx.eq(obj, v))


def terminator_free(ctx, s, v):
    """documented: a NullTerminated payload must not contain the terminator, a NullStripped payload must not
    end with the padding -- such values are outside the value domain (curated specs only: payload = GreedyBytes)"""
    s = T(s)
    k = s[0]
    if k == "nullterminated" and s[1][0] == "greedybytes":
        term = bytes.fromhex(s[2])
        u = len(term)
        if s[3]:
            # include=True: the value carries the terminator itself at its end and nowhere before
            body, last = v[:len(v) - u], v[len(v) - u:]
            ctx.assume(ctx.eq(last, term))
        else:
            body = v
        for i in range(0, len(body) - u + 1, u):
            ctx.assume(api.not_term(ctx.eq(body[i:i + u], term)))
        ctx.assume(len(body) % u == 0)
        return
    if k == "nullstripped" and s[1][0] == "greedybytes":
        pad = bytes.fromhex(s[2])
        u = len(pad)
        if len(v) >= u:
            ctx.assume(api.not_term(ctx.eq(v[len(v) - u:], pad)))
        if u > 1 and len(v) % u:
            t = len(v) % u
            ctx.assume(api.not_term(ctx.eq(v[len(v) - t:], pad[:t])))
        return
    if k == "struct":
        for n, x in s[1]:
            if n and isinstance(v, dict) and n in v:
                terminator_free(ctx, x, v[n])
        return
    if k in ("fixedsized", "padded", "aligned", "prefixed"):
        return terminator_free(ctx, s[2], v)


def consistent_flags(ctx, s, v):
    """a dict of flags is in the value domain when every multi-bit flag is set exactly if all of its bits are set
    by the single-bit flags (an inconsistent dict cannot round-trip by design)"""
    s = T(s)
    if s[0] == "flagsenum" and isinstance(v, dict):
        table = dict((l, x) for l, x in s[2])
        singles = {l: x for l, x in table.items() if x & (x - 1) == 0}
        for l, x in table.items():
            if x & (x - 1):
                parts = [sl for sl, sx in singles.items() if sx & x]
                if sum(singles[q] for q in parts) == x:
                    allset = api.and_terms([v[q] if isinstance(v[q], bool) else v[q].t for q in parts])
                    this = v[l] if isinstance(v[l], bool) else v[l].t
                    if isinstance(allset, bool) and isinstance(this, bool):
                        ctx.assume(allset == this)
                    else:
                        import z3
                        a = allset if not isinstance(allset, bool) else z3.BoolVal(allset)
                        b = this if not isinstance(this, bool) else z3.BoolVal(this)
                        ctx.assume(a == b)
    elif s[0] == "struct" and isinstance(v, dict):
        for n, x in s[1]:
            if n in v:
                consistent_flags(ctx, x, v[n])


def payload_assumptions(ctx, s, v):
    """exclude, by assumption, values that are documented not to round-trip"""
    s = T(s)
    k = s[0]
    if k == "nullterminated":
        # the encoded inner bytes must not contain the terminator: only used over GreedyRange(x)/GreedyBytes here
        pass
    for sub in s[1:]:
        pass


def _extra(ctx, C, p):
    e = EXTRA[p["extra"]]
    source, vb, seedlen = e[0], e[1], (e[2] if len(e) > 2 else 4)
    if source == "NODE":
        ns = {}
        node = C.Struct("v" / C.Byte, "kids" / C.Prefixed(C.Int8ub, C.GreedyRange(C.LazyBound(lambda: ns["node"]))))
        ns["node"] = node
        d = node
        leaf = lambda i: dict(v=ctx.int("leaf%d" % i, 0, 255), kids=[])
        v = dict(v=ctx.int("root", 0, 255), kids=[dict(v=ctx.int("mid0", 0, 255), kids=[leaf(0), leaf(1)]), leaf(2), dict(v=ctx.int("mid1", 0, 255), kids=[leaf(3)])])
        rb = api.outcome(d.build, v)
        ctx.check("the tree builds", rb.ok)
        ro = api.outcome(d.parse, rb.value)
        ctx.check("the built tree parses", ro.ok)

        def same_tree(a, b):
            return api.and_terms([ctx.eq(a["v"], b["v"]), len(a["kids"]) == len(b["kids"])] + [same_tree(x, y) for x, y in zip(a["kids"], b["kids"])])
        ctx.check("every node of the tree comes back (children at every depth)", same_tree(ro.value, v))
        return "ok"
    d = mk(C, source)
    kw = {}
    if "_params.a" in source:
        kw = dict(a=ctx.int("kw.a", -40, 40), g=ctx.choice("kw.g", [1, 2, 4]))
    if "_params.stop" in source:
        kw = dict(stop=ctx.choice("kw.stop", [0, 1]))
    if "_params.w" in source:
        kw = dict(w=ctx.choice("kw.w", [1, 2, 3]))
    if "_params.n" in source:
        kw = dict(n=2)
    ctx.kw = kw
    if vb is None:
        # the value is whatever parse returns for arbitrary input (then build must reproduce an encoding that parses to it)
        data0 = ctx.bytes("seed", seedlen)
        r0 = api.outcome(d.parse, data0, **kw)
        if not r0.ok:
            return "seed-reject"
        v = r0.value
    else:
        v = vb(ctx)
    vbuild = v
    if isinstance(v, _Derived):
        vbuild, v = v.build, v.want
    if "NamedTuple" in source and isinstance(v, dict):
        import types
        vbuild = types.SimpleNamespace(**v)          # NamedTuple over a Struct builds from any object with the fields as attributes
    ctx.observe("value", v)
    rb = api.outcome(d.build, vbuild, **kw)
    ctx.check("build accepts the value (got %s)" % ("ok" if rb.ok else type(rb.exc).__name__ + ": " + str(rb.exc)[:60]), rb.ok)
    st = ctx.stream(rb.value)
    ro = api.outcome(d.parse_stream, st, **kw)
    ctx.check("parse accepts what build produced", ro.ok)
    obj = ro.value
    want = v
    if "NamedTuple" in source and isinstance(v, dict):
        ctx.check("parsed named tuple carries every field under its own name", api.and_terms([ctx.eq(getattr(obj, k), x) for k, x in v.items()]))
    elif "NamedTuple" in source:
        ctx.check("parsed named tuple carries the fields in declaration order", ctx.eq(list(obj), list(v)))
    else:
        ctx.check("parsed object equals the value built", ctx.eq(obj, want))
    ctx.check("parse consumes exactly the bytes build produced", st.tell() == len(rb.value))
    rb2 = api.outcome(d.build, obj, **kw)
    ctx.check("building the parsed object reproduces the bytes", rb2.ok and ctx.fork(ctx.eq(rb2.value, rb.value)))
    return "ok"


def harness(ctx, C, p):
    if "extra" in p:
        return _extra(ctx, C, p)
    spec = T(p["spec"])
    common.STRICT[0] = True
    try:
        v = domain(ctx, spec, "v", p["tier"])
    finally:
        common.STRICT[0] = False
    terminator_free(ctx, spec, v)
    consistent_flags(ctx, spec, v)
    d = mk(C, src(spec))
    ctx.observe("value", v)
    rb = api.outcome(d.build, v)
    ctx.check("build accepts every value of the domain", rb.ok)
    data = rb.value
    ctx.observe("bytes", data)
    st = ctx.stream(data)
    ro = api.outcome(d.parse_stream, st)
    ctx.check("parse accepts what build produced", ro.ok)
    obj = ro.value
    terms = []
    expect_terms(ctx, spec, v, obj, terms)
    ctx.check("parsed object equals the value built (derived members hold their definition)", api.and_terms(terms))
    ctx.check("parse consumes exactly the bytes build produced", st.tell() == len(data))
    rb2 = api.outcome(d.build, obj)
    ctx.check("building the parsed object succeeds", rb2.ok)
    ctx.check("building the parsed object reproduces the bytes", ctx.eq(rb2.value, data))
    return "ok"


