"""C13 -- constants, validators and label mappings are enforced in both directions.

Programs: Const / OneOf / NoneOf / Check / ExprValidator / Enum / FlagsEnum / Mapping instances over
integer and bytes sub-constructs, and Error inside the recovering combinators (enumerated).
Symbolic: the sub-construct's value over its whole domain (one byte up to 64 bits), every input
byte, the "other" value offered to Const.  Oracle: the predicate / table itself, evaluated natively
on the symbolic value.  Obligations: parse accepts <=> predicate holds <=> build accepts; Const
emits its encoding for None or the constant and refuses everything else; known labels translate
both ways, unknown labels are refused on build, unmapped integers are preserved; Error always
surfaces as ExplicitError.
"""
from symx import api
from symx.values import mkbytes
from .common import mk, name_info, FMT
from .ref import enc_int, bit_of

PROPERTY = "C13"
LEVEL = "model_checking"
INSTANCE_BUDGET_S = {"quick": 90, "thorough": 600}
EXHAUSTIVE = {"quick": False, "thorough": False}
BOUNDS = {"quick": dict(domains="Int8ub, Int8sb, Int16ul, Int16sb, Int32ub, Int64sl full ranges (symbolic)", tables="0..4 labels, overlapping multi-bit flags included"),
          "thorough": dict(domains="as quick plus Int24sb, Int64ub, VarInt < 2**63", tables="as quick")}
OUTSIDE = ["string sub-constructs (stage 2)", "user lambdas other than the listed predicates"]
ASSUMPTIONS = []

INTS = ["Int8ub", "Int8sb", "Int16ul", "Int16sb", "Int32ub", "Int64sl"]
PREDS = {
    "gt5": ("obj_ > 5", lambda v: v > 5), "even": ("obj_ % 2 == 0", lambda v: v % 2 == 0), "mask": ("obj_ & 0x81 == 0x81", lambda v: (v % 2 == 1) & ((v // 128) % 2 == 1)),
    "range": ("(obj_ >= -3) & (obj_ < 100)", lambda v: (v >= -3) & (v < 100)), "ne": ("obj_ != 0", lambda v: v != 0),
}
ENUMS = {"e0": {}, "e1": {"only": 7}, "e3": {"zero": 0, "one": 1, "big": 200}, "eneg": {"neg": -1, "top": 127, "low": -128, "mid": 5},
         "ealias": {"idle": 0, "stop": 0, "run": 1, "start": 1, "fault": 7}}      # several labels for one value
FLAGSETS = {"f0": {}, "f1": {"a": 1}, "f3": {"a": 1, "b": 2, "c": 128}, "fov": {"r": 4, "w": 2, "x": 1, "rwx": 7, "rw": 6}, "fz": {"none": 0, "hi": 0x80}}


def rng(name):
    size, signed, _ = name_info(name)
    return (-(1 << (8 * size - 1)), (1 << (8 * size - 1)) - 1) if signed else (0, (1 << (8 * size)) - 1)


def instances(tier, seed):
    out = []
    ints = INTS + (["Int24sb", "Int64ub"] if tier != "quick" else [])
    for n in ints:
        lo, hi = rng(n)
        for c in sorted({lo, hi, 0 if lo <= 0 else lo + 1, min(hi, 77)}):
            out.append(dict(name="Const(%d, %s)" % (c, n), params=dict(kind="constv", sub=n, c=c)))
        out.append(dict(name="OneOf(%s)" % n, params=dict(kind="oneof", sub=n, neg=False)))
        out.append(dict(name="NoneOf(%s)" % n, params=dict(kind="oneof", sub=n, neg=True)))
        for pn in sorted(PREDS):
            out.append(dict(name="ExprValidator(%s, %s)" % (n, PREDS[pn][0]), params=dict(kind="validator", sub=n, pred=pn)))
            out.append(dict(name="Check in Struct(%s, %s)" % (n, PREDS[pn][0]), params=dict(kind="check", sub=n, pred=pn)))
    for c in ("", "00", "4d5a", "ff00ff"):
        out.append(dict(name="Const(bytes %r)" % c, params=dict(kind="constb", c=c)))
    out.append(dict(name="Const(b'ab', Bytes(2))", params=dict(kind="constb2")))
    for n, c in (("Int8ub", 77), ("Int16ub", 0), ("Int16sl", -2)):
        out.append(dict(name="compiled Const(%d, %s)" % (c, n), params=dict(kind="constv", sub=n, c=c, compiled=True)))
    for c in ("4d5a", "00"):
        out.append(dict(name="compiled Const(bytes %r)" % c, params=dict(kind="constb", c=c, compiled=True)))
    out.append(dict(name="Const over a context-sized sub-construct, built twice", params=dict(kind="constctx")))
    for en in sorted(ENUMS):
        for n in (("Int8ub", "Int8sb", "Int64sl") if en != "eneg" else ("Int8sb", "Int16sb")):
            out.append(dict(name="Enum(%s, %s)" % (n, en), params=dict(kind="enum", sub=n, table=en)))
    for fn in sorted(FLAGSETS):
        for n in ("Int8ub", "Int16ul"):
            out.append(dict(name="FlagsEnum(%s, %s)" % (n, fn), params=dict(kind="flags", sub=n, table=fn)))
    # validators and constants over bytes and text sub-constructs
    for sub, n, vals, text in (("Bytes(2)", 2, [b"ab", b"\x00\x00", b"\xff\xfe"], False), ("Bytes(1)", 1, [b"\x00", b"a"], False),
                               ("PaddedString(2, 'ascii')", 2, ["ab", "a", ""], True), ("PaddedString(2, 'utf8')", 2, ["a", "\u00e9"], True),
                               ("CString('ascii')", 3, ["", "x", "xy"], True), ("PascalString(Byte, 'ascii')", 3, ["", "ab"], True),
                               # framed sub-constructs: the constant's encoding is more than the constant's bytes
                               ("NullTerminated(GreedyBytes)", 3, [b"ab", b""], False), ("Prefixed(Byte, GreedyBytes)", 3, [b"ab", b""], False), ("ProcessXor(0x20, Bytes(2))", 2, [b"MZ", b"  "], False),
                               ("Padded(3, Bytes(2), pattern=b'\\xee')", 3, [b"ab"], False)):
        for neg in (False, True):
            out.append(dict(name="%s(%s, %r)" % ("NoneOf" if neg else "OneOf", sub, vals), params=dict(kind="oneofseq", sub=sub, n=n, vals=[v.hex() if isinstance(v, bytes) else v for v in vals], text=text, neg=neg)))
        out.append(dict(name="Const(%r, %s) vs its sub-construct" % (vals[0], sub), params=dict(kind="constseq", sub=sub, n=n, c=vals[0].hex() if isinstance(vals[0], bytes) else vals[0], text=text)))
        out.append(dict(name="ExprValidator(%s, obj_ != %r)" % (sub, vals[0]), params=dict(kind="validatorseq", sub=sub, n=n, c=vals[0].hex() if isinstance(vals[0], bytes) else vals[0], text=text)))
        out.append(dict(name="Mapping(%s, labels -> %r)" % (sub, vals), params=dict(kind="mappingseq", sub=sub, n=n, vals=[v.hex() if isinstance(v, bytes) else v for v in vals], text=text)))
    for i, (sub, coll) in enumerate(COLLECTIONS):
        for neg in (False, True):
            out.append(dict(name="%s(%s, %s)" % ("NoneOf" if neg else "OneOf", sub, coll), params=dict(kind="oneofcoll", i=i, neg=neg)))
    out.append(dict(name="Enum from IntEnum", params=dict(kind="enum-intenum")))
    out.append(dict(name="Enum built from another Enum's label object", params=dict(kind="enum-foreign")))
    for i in range(len(ERROR_BUILD_NONE)):
        out.append(dict(name="Error behind a condition, built from an absent value: %s" % ERROR_BUILD_NONE[i][0], params=dict(kind="error-none", i=i)))
    out.append(dict(name="Mapping(Byte)", params=dict(kind="mapping")))
    out.append(dict(name="Mapping(Bytes(1))", params=dict(kind="mapping-bytes")))
    for w in ("Select({}, Byte)", "Optional({})", "GreedyRange({})", "Peek({})", "Struct('a'/Byte, 'e'/{})", "Sequence(Byte, {})", "Array(1, {})",
              "Struct('a'/Byte, 'e'/If(this.a == 1, {}))", "FixedSized(2, {})", "Select(Struct('x'/Byte, 'e'/{}), Byte)", "GreedyRange(Select({}, Byte))",
              "Struct('k'/Byte, 's'/Switch(this.k, {{1: {}}}, default=Byte))", "FocusedSeq('a', 'a'/Byte, 'e'/{})", "Union(None, 'a'/Byte, 'e'/{})",
              "Peek(Struct('a'/Byte, {}))", "GreedyRange({}, discard=True)", "Array(1, {}, discard=True)", "RepeatUntil(True, {}, discard=True)", "Struct('r'/GreedyRange(Struct('x'/Byte, {}), discard=True), 't'/Byte)", "Padded(2, {})", "NullTerminated({}, require=False)", "Lazy({})" if False else "Pointer(0, {})"):
        out.append(dict(name="Error inside %s" % w.format("Error"), params=dict(kind="error", source=w.format("Error"))))
    for w, v in (("Optional(BitStruct('k'/BitsInteger(3), Error, 'v'/BitsInteger(5)))", dict(k=1, v=1)), ("Select(BitStruct('k'/BitsInteger(3), Error, 'v'/BitsInteger(5)), Byte, Pass)", dict(k=1, v=1)),
                 ("Struct('n'/Byte, 'r'/Optional(Bitwise(Sequence(Nibble, Error))), 't'/Byte)", dict(n=1, r=[1, None], t=2)), ("GreedyRange(BitStruct('k'/Nibble, Error))", [dict(k=1)]),
                 ("Optional(Bitwise(Struct('a'/BitsInteger(9), Error, 'b'/BitsInteger(7))))", dict(a=1, b=1))):
        out.append(dict(name="Error in the middle of a transformed region: %s" % w, params=dict(kind="error-region", source=w, value=v)))
    for src_, kw in (("OneOf(Default(Byte, this.d), [1, 2, 3])", "d"), ("OneOf(Rebuild(Byte, this.d), [1, 2, 3])", "d"), ("Struct('v'/OneOf(Default(Byte, this._params.d), [1, 2, 3]))", "d"),
                     ("OneOf(Default(Byte, this.d), range(4, 9))", "d"), ("OneOf(Rebuild(Int16ub, this.d * 3), (6, 9, 300))", "d"),
                     ("NoneOf(Default(Byte, this.d), [9, 10])", "d"), ("Struct('v'/NoneOf(Default(Byte, this._params.d), [0]))", "d"), ("ExprValidator(Default(Byte, this.d), obj_ != 7)", "d")):
        out.append(dict(name="validator around a member that builds from nothing: %s" % src_, params=dict(kind="validator-none", source=src_)))
    return out


# collections other than lists: membership is Python's `in` for that collection (substring for bytes / str collections)
COLLECTIONS = [("Bytes(1)", "b'\\x00\\xff'"), ("Bytes(2)", "b'abcd'"), ("Bytes(1)", "b'abc'"), ("PaddedString(1, 'ascii')", "'xyz'"), ("Byte", "range(3, 6)"), ("Byte", "{1, 200}"),
               ("Int16ub", "(7, 513)"), ("Byte", "frozenset([0, 255])")]


def _oneofcoll(ctx, C, p):
    sub_src, coll_src = COLLECTIONS[p["i"]]
    coll = eval(coll_src)
    sub = mk(C, sub_src)
    d = mk(C, "%s(%s, %s)" % ("NoneOf" if p["neg"] else "OneOf", sub_src, coll_src))
    n = sub.sizeof()
    data = ctx.bytes("data", n)
    rp = api.outcome(sub.parse, data)
    r = api.outcome(d.parse, data)
    if not rp.ok:
        ctx.check("what the sub-construct rejects the validator rejects", not r.ok)
        return "sub-reject"
    v = rp.value
    if isinstance(coll, (bytes, str)):
        k = len(v)
        cands = [coll[i:i + k] for i in range(len(coll) - k + 1)]
        member = api.or_terms([ctx.eq(v, c) for c in cands])
    else:
        member = api.or_terms([ctx.eq(v, c) for c in sorted(coll)])
    want = api.not_term(member) if p["neg"] else member
    if ctx.fork(want):
        ctx.check("a value the collection admits parses and is returned unchanged", r.ok and ctx.fork(ctx.eq(r.value, v)))
        b = api.outcome(d.build, v)
        ctx.check("and builds to the plain encoding", b.ok and ctx.fork(ctx.eq(b.value, sub.build(v))))
        return "admitted"
    ctx.check("a value the collection excludes is rejected with ValidationError on parse", (not r.ok) and isinstance(r.exc, C.ValidationError))
    b = api.outcome(d.build, v)
    ctx.check("and refused with ValidationError on build", (not b.ok) and isinstance(b.exc, C.ValidationError))
    return "excluded"


ERROR_BUILD_NONE = [
    ("Optional(IfThenElse(this._params.c, Byte, Error))", None, dict(c=0)), ("Select(Switch(this._params.k, {1: Byte}, default=Error), Pass)", None, dict(k=0)),
    ("Struct('a'/Byte, 'o'/Optional(Struct(Error, 'x'/Byte)))", dict(a=1), {}), ("Sequence(Byte, Optional(Sequence(Error, Byte)))", [1, None], {}),
    ("Struct('a'/Byte, 'o'/Select(IfThenElse(this.a, Error, Byte), Pass))", dict(a=1), {}), ("Optional(FocusedSeq('x', Error, 'x'/Byte))", None, {}),
]


def _error_none(ctx, C, p):
    source, v, kw = ERROR_BUILD_NONE[p["i"]]
    d = mk(C, source)
    r = api.outcome(d.build, v, **kw)
    ctx.check("Error is reached while building an absent value and aborts the build with ExplicitError (got %s)" % ("bytes" if r.ok else type(r.exc).__name__),
              (not r.ok) and isinstance(r.exc, C.ExplicitError))
    return "ok"


def _error_region(ctx, C, p):
    d = mk(C, p["source"])
    data = ctx.bytes("data", 3)
    r = api.outcome(d.parse, data)
    ctx.check("Error aborts parsing with ExplicitError (got %s)" % (type(r.exc).__name__ if not r.ok else "a value"), (not r.ok) and isinstance(r.exc, C.ExplicitError))
    r = api.outcome(d.build, p["value"])
    ctx.check("Error aborts building with ExplicitError (got %s)" % (type(r.exc).__name__ if not r.ok else "bytes"), (not r.ok) and isinstance(r.exc, C.ExplicitError))
    return "ok"


def _validator_none(ctx, C, p):
    """a validator never lets out on build what it refuses on parse, whatever its member makes up when given nothing"""
    d = mk(C, p["source"])
    x = ctx.int("d", 0, 255)
    obj = dict() if p["source"].startswith("Struct") else None
    r = api.outcome(d.build, obj, d=x)
    if not r.ok:
        ctx.check("refusal is a ValidationError (got %s)" % type(r.exc).__name__, isinstance(r.exc, C.ValidationError))
        return "refused"
    back = api.outcome(d.parse, r.value, d=x)
    ctx.check("what build emitted is admitted by parse", back.ok)
    return "emitted"


def _enum_foreign(ctx, C, p):
    """a label object carries a name: another Enum translates it through ITS table (or refuses it), never through the number it came with"""
    e1, e2 = mk(C, "Enum(Byte, a=1, b=2)"), mk(C, "Enum(Byte, a=5, c=7, b=2)")
    data = ctx.bytes("data", 1)
    lab = e2.parse(data)
    r = api.outcome(e1.build, lab)
    if isinstance(lab, str):
        name = str(lab)
        if name in ("a", "b"):
            ctx.check("label %r from another Enum builds to this Enum's number" % name, r.ok and ctx.fork(ctx.eq(r.value, mkbytes([{"a": 1, "b": 2}[name]]))))
        else:
            ctx.check("label %r unknown to this Enum is refused with MappingError" % name, (not r.ok) and isinstance(r.exc, C.MappingError))
        return "label"
    ctx.check("an unlabelled integer builds as itself", r.ok and ctx.fork(ctx.eq(r.value, data)))
    return "int"


def harness(ctx, C, p):
    return globals()["_" + p["kind"].replace("-", "_")](ctx, C, p)


def _constv(ctx, C, p):
    n, c = p["sub"], p["c"]
    size, signed, order = name_info(n)
    d = mk(C, "Const(%d, %s)" % (c, n))
    if p.get("compiled"):
        d = d.compile()
    enc = mkbytes(enc_int(c, size, signed, order))
    data = ctx.bytes("data", size)
    r = api.outcome(d.parse, data)
    if ctx.fork(ctx.eq(data, enc)):
        ctx.check("the exact encoding is accepted and yields the constant", r.ok and r.value == c)
    else:
        ctx.check("any other encoding is rejected with ConstError", (not r.ok) and isinstance(r.exc, C.ConstError))
    ctx.check("build(None) emits the constant's encoding", ctx.eq(d.build(None), enc))
    ctx.check("build(constant) emits the constant's encoding", ctx.eq(d.build(c), enc))
    lo, hi = rng(n)
    other = ctx.int("other", lo - 2, hi + 2)
    ctx.assume(other != c)
    r = api.outcome(d.build, other)
    if p.get("compiled"):
        # generated code omits the comparison of a supplied value (docs/compilation.rst: "some checks are omitted by generated
        # code"); what it must still do is emit the constant and nothing else
        ctx.check("compiled: whatever is supplied, only the constant's encoding is ever emitted", (not r.ok) or ctx.fork(ctx.eq(r.value, enc)))
    else:
        ctx.check("any other supplied value is refused with ConstError", (not r.ok) and isinstance(r.exc, C.ConstError))
    for falsy in (0, False, b"", "", [], 0.0):
        if falsy != c and not p.get("compiled"):
            r = api.outcome(d.build, falsy)
            ctx.check("falsy value %r is refused" % (falsy,), (not r.ok) and isinstance(r.exc, C.ConstError))
    s = mk(C, "Struct('sig'/Const(%d, %s), 'v'/Byte)" % (c, n))
    if p.get("compiled"):
        s = s.compile()
    v = ctx.int("v", 0, 255)
    ctx.check("a Struct member Const builds without a value", ctx.eq(s.build(dict(v=v)), enc + mkbytes([v])))
    return "ok"


def _constb(ctx, C, p):
    c = bytes.fromhex(p["c"])
    d = mk(C, "Const(%r)" % c)
    if p.get("compiled"):
        d = d.compile()
    data = ctx.bytes("data", len(c))
    r = api.outcome(d.parse, data)
    if ctx.fork(ctx.eq(data, c)):
        ctx.check("the exact bytes are accepted", r.ok and ctx.fork(ctx.eq(r.value, c)))
    else:
        ctx.check("any other bytes are rejected with ConstError", (not r.ok) and isinstance(r.exc, C.ConstError))
    ctx.check("build(None) emits the constant", ctx.eq(d.build(None), c))
    other = ctx.bytes("other", max(1, len(c)))
    ctx.assume(api.not_term(ctx.eq(other, c)))
    r = api.outcome(d.build, other)
    if p.get("compiled"):
        ctx.check("compiled: whatever is supplied, only the constant is ever emitted", (not r.ok) or ctx.fork(ctx.eq(r.value, c)))
    else:
        ctx.check("any other supplied bytes are refused with ConstError", (not r.ok) and isinstance(r.exc, C.ConstError))
    if c:
        r = api.outcome(d.build, b"")
        if not p.get("compiled"):
            ctx.check("empty bytes are refused", (not r.ok) and isinstance(r.exc, C.ConstError))
        if not p.get("compiled"):      # compiled fields do not check short reads (documented)
            r = api.outcome(d.parse, data[:len(c) - 1])
            ctx.check("short input is rejected", (not r.ok) and isinstance(r.exc, C.StreamError))
    return "ok"


def _constb2(ctx, C, p):
    d = mk(C, "Const(b'ab', Bytes(2))")
    data = ctx.bytes("data", 2)
    r = api.outcome(d.parse, data)
    ctx.check("accepted iff equal", r.ok == ctx.fork(ctx.eq(data, b"ab")))
    return "ok"


def _constctx(ctx, C, p):
    d = mk(C, "Const(1, BytesInteger(this.width, swapped=this.little))")
    for i in range(2):
        w = ctx.int("width%d" % i, 1, 4)
        little = ctx.bool("little%d" % i)
        wc = ctx.concretize(w)
        enc = [0] * (wc - 1) + [1]
        if ctx.fork(little):
            enc.reverse()
        r = api.outcome(d.build, None, width=w, little=little)
        ctx.check("build #%d emits the constant's encoding under the context of THIS call" % i, r.ok and ctx.fork(ctx.eq(r.value, mkbytes(enc))))
        ctx.check("and the bytes it emitted parse back under the same context", api.outcome(d.parse, r.value, width=w, little=little).ok)
    return "ok"


def _oneof(ctx, C, p):
    n = p["sub"]
    lo, hi = rng(n)
    vals = sorted({lo, hi, 0 if lo <= 0 else lo + 1, min(hi, 42)})
    d = mk(C, "%s(%s, %r)" % ("NoneOf" if p["neg"] else "OneOf", n, vals))
    size, signed, order = name_info(n)
    data = ctx.bytes("data", size)
    plain = getattr(C, n).parse(data)
    member = api.or_terms([ctx.eq(plain, x) for x in vals])
    want = api.not_term(member) if p["neg"] else member
    r = api.outcome(d.parse, data)
    if ctx.fork(want):
        ctx.check("admitted value parses and is returned unchanged", r.ok and ctx.fork(ctx.eq(r.value, plain)))
    else:
        ctx.check("excluded value is rejected with ValidationError on parse", (not r.ok) and isinstance(r.exc, C.ValidationError))
    v = ctx.int("v", lo, hi)
    member = api.or_terms([ctx.eq(v, x) for x in vals])
    want = api.not_term(member) if p["neg"] else member
    r = api.outcome(d.build, v)
    if ctx.fork(want):
        ctx.check("admitted value builds to the plain encoding", r.ok and ctx.fork(ctx.eq(r.value, getattr(C, n).build(v))))
    else:
        ctx.check("excluded value is refused with ValidationError on build", (not r.ok) and isinstance(r.exc, C.ValidationError))
    return "ok"


def _seqvals(p, key="vals"):
    v = p[key]
    if isinstance(v, list):
        return [x if p["text"] else bytes.fromhex(x) for x in v]
    return v if p["text"] else bytes.fromhex(v)


def _member(ctx, v, vals):
    return api.or_terms([ctx.eq(v, x) for x in vals])


def _oneofseq(ctx, C, p):
    """OneOf / NoneOf over a bytes or text sub-construct: admitted exactly when the plain sub-construct's value is (not) in the list"""
    vals = _seqvals(p)
    sub = mk(C, p["sub"])
    d = mk(C, "%s(%s, %r)" % ("NoneOf" if p["neg"] else "OneOf", p["sub"], vals))
    data = ctx.bytes("data", p["n"])
    rp = api.outcome(sub.parse, data)
    r = api.outcome(d.parse, data)
    if not rp.ok:
        ctx.check("what the sub-construct rejects the validator rejects", not r.ok)
        return "sub-reject"
    want = _member(ctx, rp.value, vals)
    want = api.not_term(want) if p["neg"] else want
    if ctx.fork(want):
        ctx.check("admitted value parses and is returned unchanged", r.ok and ctx.fork(ctx.eq(r.value, rp.value)))
        b = api.outcome(d.build, rp.value)
        ctx.check("and builds to the plain encoding", b.ok and ctx.fork(ctx.eq(b.value, sub.build(rp.value))))
        return "admitted"
    ctx.check("excluded value is rejected with ValidationError on parse", (not r.ok) and isinstance(r.exc, C.ValidationError))
    b = api.outcome(d.build, rp.value)
    ctx.check("and refused with ValidationError on build", (not b.ok) and isinstance(b.exc, C.ValidationError))
    return "excluded"


def _constseq(ctx, C, p):
    c = _seqvals(p, "c")
    sub = mk(C, p["sub"])
    d = mk(C, "Const(%r, %s)" % (c, p["sub"]))
    enc = sub.build(c)
    ctx.check("build(None) and build(constant) emit the sub-construct's encoding of the constant", ctx.eq(d.build(None), enc) and ctx.eq(d.build(c), enc))
    data = ctx.bytes("data", p["n"])
    rp = api.outcome(sub.parse, data)
    r = api.outcome(d.parse, data)
    if not rp.ok:
        ctx.check("what the sub-construct rejects Const rejects", not r.ok)
        return "sub-reject"
    if ctx.fork(ctx.eq(rp.value, c)):
        ctx.check("input decoding to the constant is accepted and yields it", r.ok and ctx.fork(ctx.eq(r.value, c)))
        return "accept"
    ctx.check("input decoding to anything else is rejected with ConstError", (not r.ok) and isinstance(r.exc, C.ConstError))
    b = api.outcome(d.build, rp.value)
    ctx.check("and that value is refused with ConstError on build", (not b.ok) and isinstance(b.exc, C.ConstError))
    return "reject"


def _validatorseq(ctx, C, p):
    c = _seqvals(p, "c")
    sub = mk(C, p["sub"])
    d = mk(C, "ExprValidator(%s, obj_ != %r)" % (p["sub"], c))
    data = ctx.bytes("data", p["n"])
    rp = api.outcome(sub.parse, data)
    r = api.outcome(d.parse, data)
    if not rp.ok:
        ctx.check("what the sub-construct rejects the validator rejects", not r.ok)
        return "sub-reject"
    if ctx.fork(ctx.eq(rp.value, c)):
        ctx.check("a value violating the predicate is rejected on parse", (not r.ok) and isinstance(r.exc, C.ValidationError))
        b = api.outcome(d.build, rp.value)
        ctx.check("and on build", (not b.ok) and isinstance(b.exc, C.ValidationError))
        return "violates"
    ctx.check("a value satisfying the predicate parses unchanged", r.ok and ctx.fork(ctx.eq(r.value, rp.value)))
    return "satisfies"


def _mappingseq(ctx, C, p):
    vals = _seqvals(p)
    labels = ["L%d" % i for i in range(len(vals))]
    sub = mk(C, p["sub"])
    d = mk(C, "Mapping(%s, %r)" % (p["sub"], dict(zip(labels, vals))))
    data = ctx.bytes("data", p["n"])
    rp = api.outcome(sub.parse, data)
    r = api.outcome(d.parse, data)
    if not rp.ok:
        ctx.check("what the sub-construct rejects the mapping rejects", not r.ok)
        return "sub-reject"
    for lab, v in zip(labels, vals):
        if ctx.fork(ctx.eq(rp.value, v)):
            ctx.check("a mapped value decodes to its label", r.ok and r.value == lab)
            ctx.check("and the label builds to that value's encoding", ctx.eq(d.build(lab), sub.build(v)))
            return "mapped"
    ctx.check("an unmapped value is rejected with MappingError", (not r.ok) and isinstance(r.exc, C.MappingError))
    b = api.outcome(d.build, "no such label")
    ctx.check("an unknown label is refused with MappingError", (not b.ok) and isinstance(b.exc, C.MappingError))
    return "unmapped"


def _validator(ctx, C, p):
    n = p["sub"]
    src_, f = PREDS[p["pred"]]
    d = mk(C, "ExprValidator(%s, %s)" % (n, src_))
    size, _, _ = name_info(n)
    data = ctx.bytes("data", size)
    plain = getattr(C, n).parse(data)
    r = api.outcome(d.parse, data)
    if ctx.fork(f(plain)):
        ctx.check("parse admits a value satisfying the predicate", r.ok and ctx.fork(ctx.eq(r.value, plain)))
    else:
        ctx.check("parse rejects a value violating the predicate", (not r.ok) and isinstance(r.exc, C.ValidationError))
    lo, hi = rng(n)
    v = ctx.int("v", lo, hi)
    r = api.outcome(d.build, v)
    if ctx.fork(f(v)):
        ctx.check("build admits a value satisfying the predicate", r.ok and ctx.fork(ctx.eq(r.value, getattr(C, n).build(v))))
    else:
        ctx.check("build refuses a value violating the predicate", (not r.ok) and isinstance(r.exc, C.ValidationError))
    return "ok"


def _check(ctx, C, p):
    n = p["sub"]
    src_, f = PREDS[p["pred"]]
    d = mk(C, "Struct('a'/%s, Check(%s), 'b'/Byte)" % (n, src_.replace("obj_", "this.a")))
    size, _, _ = name_info(n)
    data = ctx.bytes("data", size + 1)
    plain = getattr(C, n).parse(data[:size])
    r = api.outcome(d.parse, data)
    if ctx.fork(f(plain)):
        ctx.check("parse continues when the check holds", r.ok and ctx.fork(ctx.eq(r.value.a, plain)))
    else:
        ctx.check("parse stops with CheckError when the check fails", (not r.ok) and isinstance(r.exc, C.CheckError))
    lo, hi = rng(n)
    v = ctx.int("v", lo, hi)
    r = api.outcome(d.build, dict(a=v, b=0))
    if ctx.fork(f(v)):
        ctx.check("build continues when the check holds", r.ok)
    else:
        ctx.check("build stops with CheckError when the check fails", (not r.ok) and isinstance(r.exc, C.CheckError))
    return "ok"


def _enum(ctx, C, p):
    n, table = p["sub"], ENUMS[p["table"]]
    lo, hi = rng(n)
    table = {k: v for k, v in table.items() if lo <= v <= hi}
    d = mk(C, "Enum(%s%s)" % (n, "".join(", %s=%d" % kv for kv in table.items())))
    size, _, _ = name_info(n)
    data = ctx.bytes("data", size)
    plain = getattr(C, n).parse(data)
    got = d.parse(data)
    hit = None
    for k, v in table.items():
        if ctx.fork(ctx.eq(plain, v)):
            hit = k
            break
    if hit is not None:
        ctx.check("a mapped integer parses to a label declared for it", isinstance(got, str) and str(got) in [k for k, v in table.items() if v == table[hit]] and int(got) == table[hit])
        ctx.check("the parsed label builds back to the same bytes", ctx.eq(d.build(got), data))
    else:
        ctx.check("an unmapped integer of any magnitude is preserved", ctx.eq(got, plain))
        ctx.check("the preserved integer builds back to the same bytes", ctx.eq(d.build(got), data))
    for k, v in table.items():
        rk = api.outcome(d.build, k)
        ctx.check("label %s builds its value (got %s)" % (k, "bytes" if rk.ok else type(rk.exc).__name__), rk.ok and ctx.fork(ctx.eq(rk.value, getattr(C, n).build(v))))
        ra = api.outcome(lambda: d.build(getattr(d, k)))
        ctx.check("attribute spelling of %s builds its value (got %s)" % (k, "bytes" if ra.ok else type(ra.exc).__name__), ra.ok and ctx.fork(ctx.eq(ra.value, getattr(C, n).build(v))))
    for bad in ("nosuch", "", "one|zero", "ONE"):
        if bad not in table:
            r = api.outcome(d.build, bad)
            ctx.check("unknown label %r is refused with MappingError" % bad, (not r.ok) and isinstance(r.exc, C.MappingError))
    v = ctx.int("v", lo, hi)
    ctx.check("an integer builds as itself", ctx.eq(d.build(v), getattr(C, n).build(v)))
    return "ok"


def _enum_intenum(ctx, C, p):
    import enum
    E = enum.IntEnum("E", dict(one=1, two=2))
    d = mk(C, "Enum(Byte, E)", {"E": E})
    b = ctx.int("b", 0, 255)
    got = d.parse(mkbytes([b]))
    if ctx.fork(b == 1):
        ctx.check("IntEnum member parses to its label", str(got) == "one")
    elif ctx.fork(b == 2):
        ctx.check("IntEnum member parses to its label", str(got) == "two")
    else:
        ctx.check("unmapped preserved", ctx.eq(got, b))
    ctx.check("IntEnum member builds", ctx.eq(d.build(E.two), b"\x02") and ctx.eq(d.build("two"), b"\x02"))
    return "ok"


def _flags(ctx, C, p):
    n, table = p["sub"], FLAGSETS[p["table"]]
    d = mk(C, "FlagsEnum(%s%s)" % (n, "".join(", %s=%d" % kv for kv in table.items())))
    size, _, _ = name_info(n)
    data = ctx.bytes("data", size)
    plain = getattr(C, n).parse(data)
    got = d.parse(data)
    terms = []
    for k, f in table.items():
        want = api.and_terms([ctx.eq(bit_of(plain, i), 1) for i in range(f.bit_length()) if (f >> i) & 1])
        terms.append(ctx.eq(got[k], True) == want if not ctx.symbolic else _iff(got[k], want))
    ctx.check("each flag is set exactly when all of its bits are set", api.and_terms(terms))
    ctx.check("the parsed flags carry exactly the declared labels", set(k for k in got.keys() if not k.startswith("_")) == set(table))
    # build from dict: union of the selected flags
    sel = {k: ctx.bool("sel." + k) for k in table}
    built = d.build(dict(sel))
    total = 0
    maxbit = max([f.bit_length() for f in table.values()] + [1])
    for i in range(maxbit):
        on = api.or_terms([api.and_terms([sel[k]]) if not isinstance(sel[k], bool) else sel[k] for k, f in table.items() if (f >> i) & 1])
        total = total + _ite(ctx, on, 2 ** i)
    ctx.check("a dict of flags builds the union of the selected values", ctx.eq(built, getattr(C, n).build(total)))
    names = list(table)
    if names:
        import itertools
        combos = [names[:2], names[-2:], [names[0], names[0]], names] + [list(c) for c in itertools.combinations(names, 2)][:6]
        for combo in combos:
            s = " | ".join(combo) if len(combo) % 2 else "|".join(combo)
            tot = 0
            for k in combo:
                tot |= table[k]
            ctx.check("string spelling %r builds the union of its labels (overlapping / repeated labels included)" % s, ctx.eq(d.build(s), getattr(C, n).build(tot)))
        s = "|".join(names[:2])
        ctx.check("attribute spelling builds", ctx.eq(d.build(getattr(d, names[0])), getattr(C, n).build(table[names[0]])))
    for bad in ("nosuch", "a|nosuch", dict(nosuch=True)):
        r = api.outcome(d.build, bad)
        ctx.check("unknown label %r is refused with MappingError" % (bad,), (not r.ok) and isinstance(r.exc, C.MappingError))
    ctx.check("a dict with an unknown label set to False is accepted (only truthy labels are looked up)", api.outcome(d.build, dict(nosuch=False)).ok)
    lo, hi = rng(n)
    v = ctx.int("v", lo, hi)
    ctx.check("an integer builds as itself", ctx.eq(d.build(v), getattr(C, n).build(v)))
    return "ok"


def _iff(a, b):
    from symx.values import tobool
    import z3
    ta = tobool(a)
    if isinstance(ta, bool) and isinstance(b, bool):
        return ta == b
    if isinstance(ta, bool):
        return b if ta else api.not_term(b)
    if isinstance(b, bool):
        return ta if b else z3.Not(ta)
    return ta == b


def _ite(ctx, cond, val):
    """val if cond else 0, without forking in symbolic mode"""
    if isinstance(cond, bool):
        return val if cond else 0
    if not ctx.symbolic:
        return val if cond else 0
    from symx.values import SymBool
    return SymBool(cond)._lift() * val


def _mapping(ctx, C, p):
    d = mk(C, "Mapping(Byte, {'x': 0, 'y': 255, 7: 7, None: 9})")
    b = ctx.int("b", 0, 255)
    r = api.outcome(d.parse, mkbytes([b]))
    table = {0: "x", 255: "y", 7: 7, 9: None}
    hit = False
    for k, v in table.items():
        if ctx.fork(b == k):
            hit = True
            ctx.check("mapped value decodes to its object", r.ok and r.value == v)
            ctx.check("and encodes back", ctx.eq(d.build(v), mkbytes([b])))
    if not hit:
        ctx.check("unmapped value is rejected with MappingError on parse", (not r.ok) and isinstance(r.exc, C.MappingError))
    for bad in ("z", 1, b"x", [1]):
        r2 = api.outcome(d.build, bad)
        ctx.check("unknown object %r is refused with MappingError on build" % (bad,), (not r2.ok) and isinstance(r2.exc, C.MappingError))
    return "ok"


def _mapping_bytes(ctx, C, p):
    d = mk(C, "Mapping(Bytes(1), {'a': b'A', 'b': b'B'})")
    data = ctx.bytes("data", 1)
    r = api.outcome(d.parse, data)
    if ctx.fork(data[0] == 65):
        ctx.check("decodes A", r.ok and r.value == "a")
    elif ctx.fork(data[0] == 66):
        ctx.check("decodes B", r.ok and r.value == "b")
    else:
        ctx.check("other bytes rejected", (not r.ok) and isinstance(r.exc, C.MappingError))
    return "ok"


def _error(ctx, C, p):
    d = mk(C, p["source"])
    data = ctx.bytes("data", 4)
    r = api.outcome(d.parse, data)
    if "Switch" in p["source"] or "If(" in p["source"]:
        taken = data[0] == 1
        if not ctx.fork(taken):
            ctx.check("Error not reached: parse is unaffected", r.ok or not isinstance(r.exc, C.ExplicitError))
            return "not-reached"
    ctx.check("Error aborts parsing with ExplicitError (got %s)" % (type(r.exc).__name__ if not r.ok else "a value"),
              (not r.ok) and isinstance(r.exc, C.ExplicitError))
    sample = {"Select(": 1, "Optional(": None, "GreedyRange(": [None], "RepeatUntil(": [None], "Struct('r'": dict(r=[dict(x=1)], t=1), "Struct('a'/Byte, 'e'": dict(a=1, e=None), "Sequence(": [1, None], "Array(": [None]}
    v = None
    for k, val in sample.items():
        if p["source"].startswith(k):
            v = val
    if p["source"].startswith(("Struct('k'", "Struct('a'/Byte, 'e'/If")):
        v = dict(k=1, a=1, s=None, e=None)
    if p["source"].startswith("FocusedSeq"):
        v = 1
    if p["source"].startswith("Union"):
        v = dict(e=None)
    if p["source"].startswith("Peek"):
        return "ok"          # Peek builds nothing
    if p["source"].startswith("Select(Struct"):
        v = dict(x=1, e=None)
    if p["source"].startswith("GreedyRange(Select"):
        v = [None]
    r = api.outcome(d.build, v)
    ctx.check("Error aborts building with ExplicitError (got %s)" % (type(r.exc).__name__ if not r.ok else "bytes"),
              (not r.ok) and isinstance(r.exc, C.ExplicitError))
    return "ok"
