"""symx.strings -- text with symbolic code points and codec models (stage 2; see DESIGN 3.2)."""
from .values import EngineGap


class SymStr:
    """placeholder until stage 2"""
    __slots__ = ("cps",)


def str_to_int(*a, **k):
    raise EngineGap("int(SymStr)")


def decode(data, encoding, errors="strict"):
    raise EngineGap("decode of symbolic bytes (codec %r) not modelled" % (encoding,))
