"""symx.strings -- text with symbolic code points (concrete length) and codec models.

SymStr supports the operations the code under test performs on text derived from data:
join / % formatting / split / find / strip / slicing / comparison (hexdump, hexundump), and
encode / decode for ascii, utf-8, utf-16, utf-32 (StringEncoded).
"""
import z3
from . import engine as E
from .values import SymInt, SymBool, SymBytes, ShByteArray, concretize, mkbytes, EngineGap, _lift_bytes

WS = (9, 10, 11, 12, 13, 28, 29, 30, 31, 32, 133, 160)


def _cp(x):
    return x if isinstance(x, (int, SymInt)) else ord(x)


def mkstr(items):
    items = tuple(items)
    if all(isinstance(c, int) for c in items):
        return "".join(chr(c) for c in items)
    return SymStr(items)


def lift(x):
    if isinstance(x, SymStr):
        return x.items
    if isinstance(x, str):
        return tuple(ord(c) for c in x)
    return None


def _eq_items(a, b):
    """z3 Bool / bool"""
    if len(a) != len(b):
        return False
    conj = []
    for x, y in zip(a, b):
        if isinstance(x, int) and isinstance(y, int):
            if x != y:
                return False
            continue
        r = (x == y) if isinstance(x, SymInt) else (y == x)
        if isinstance(r, SymBool):
            conj.append(r.t)
        elif not r:
            return False
    if not conj:
        return True
    return z3.And(*conj) if len(conj) > 1 else conj[0]


class SymStr:
    __slots__ = ("items",)

    def __init__(self, items):
        self.items = tuple(items)

    def __len__(self):
        return len(self.items)

    def __bool__(self):
        return len(self.items) > 0

    def __iter__(self):
        return (mkstr((c,)) for c in self.items)

    def __getitem__(self, i):
        if isinstance(i, slice):
            i = slice(concretize(i.start), concretize(i.stop), concretize(i.step))
            return mkstr(self.items[i])
        return mkstr((self.items[concretize(i)],))

    def __add__(self, o):
        o = lift(o)
        if o is None:
            return NotImplemented
        return mkstr(self.items + o)

    def __radd__(self, o):
        o = lift(o)
        if o is None:
            return NotImplemented
        return mkstr(o + self.items)

    def __mul__(self, n):
        return mkstr(self.items * concretize(n))

    __rmul__ = __mul__

    def __eq__(self, o):
        o = lift(o)
        if o is None:
            return False
        return SymBool.make(_eq_items(self.items, o))

    def __ne__(self, o):
        r = self.__eq__(o)
        return SymBool.make(z3.Not(r.t)) if isinstance(r, SymBool) else (not r)

    def __hash__(self):
        return hash("".join(chr(concretize(c)) for c in self.items))

    def __repr__(self):
        return "<symstr %d>" % len(self.items)

    def __str__(self):
        raise EngineGap("str(SymStr) reached a C function")

    def __format__(self, spec):
        return "<symstr>"

    def __contains__(self, sub):
        return self.find(sub) >= 0

    def __mod__(self, args):
        return sym_format(self, args)

    def find(self, sub, start=0, end=None):
        sub = lift(sub)
        end = len(self.items) if end is None else end
        n = len(sub)
        for i in range(start, end - n + 1):
            if SymBool.make(_eq_items(self.items[i:i + n], sub)):
                return i
        return -1

    def index(self, sub, *a):
        r = self.find(sub, *a)
        if r < 0:
            raise ValueError("substring not found")
        return r

    def startswith(self, p):
        p = lift(p)
        return len(p) <= len(self.items) and bool(SymBool.make(_eq_items(self.items[:len(p)], p)))

    def endswith(self, p):
        p = lift(p)
        return len(p) <= len(self.items) and bool(SymBool.make(_eq_items(self.items[len(self.items) - len(p):], p)))

    def _isws(self, c):
        if isinstance(c, int):
            return chr(c).isspace()
        for w in WS:
            if c == w:
                return True
        return False

    def _strip(self, chars, left, right):
        items = self.items
        if chars is None:
            test = self._isws
        else:
            cs = lift(chars)

            def test(c):
                for x in cs:
                    if c == x:
                        return True
                return False
        if left:
            while items and test(items[0]):
                items = items[1:]
        if right:
            while items and test(items[-1]):
                items = items[:-1]
        return mkstr(items)

    def strip(self, chars=None):
        return self._strip(chars, True, True)

    def lstrip(self, chars=None):
        return self._strip(chars, True, False)

    def rstrip(self, chars=None):
        return self._strip(chars, False, True)

    def split(self, sep=None, maxsplit=-1):
        maxsplit = concretize(maxsplit)
        out = []
        if sep is None:
            cur = []
            for c in self.items:
                if self._isws(c):
                    if cur:
                        out.append(mkstr(cur))
                        cur = []
                else:
                    cur.append(c)
            if cur:
                out.append(mkstr(cur))
            return out
        sp = lift(sep)
        n = len(sp)
        if n == 0:
            raise ValueError("empty separator")
        i, start = 0, 0
        items = self.items
        while i + n <= len(items):
            if (maxsplit < 0 or len(out) < maxsplit) and SymBool.make(_eq_items(items[i:i + n], sp)):
                out.append(mkstr(items[start:i]))
                i += n
                start = i
            else:
                i += 1
        out.append(mkstr(items[start:]))
        return out

    def join(self, seq):
        return str_join(self, seq)

    def encode(self, encoding="utf-8", errors="strict"):
        return encode(self, encoding, errors)

    def upper(self):
        return mkstr([_upper(c) for c in self.items])

    def lower(self):
        return mkstr([_lower(c) for c in self.items])

    def replace(self, old, new, count=-1):
        parts = self.split(old, count)
        return str_join(new, parts)

    def __getattr__(self, name):
        """any other str method: fork over every feasible content (sound; loud when the bound is exceeded)"""
        if name.startswith("__") or not hasattr(str, name):
            raise AttributeError("'str' object has no attribute %r" % name)

        def call(*a, **k):
            conc = "".join(chr(concretize(c)) for c in self.items)
            a = tuple("".join(chr(concretize(c)) for c in x.items) if isinstance(x, SymStr) else concretize(x) for x in a)
            return getattr(conc, name)(*a, **k)
        return call

    def isdigit(self):
        for c in self.items:
            if not (c >= 48) or not (c <= 57):
                return False
        return len(self.items) > 0


def _upper(c):
    if isinstance(c, int):
        return ord(chr(c).upper()) if len(chr(c).upper()) == 1 else c
    if c >= 97 and c <= 122:
        return c - 32
    if c < 128:
        return c
    raise EngineGap("upper() of a symbolic non-ascii character")


def _lower(c):
    if isinstance(c, int):
        return ord(chr(c).lower()) if len(chr(c).lower()) == 1 else c
    if c >= 65 and c <= 90:
        return c + 32
    if c < 128:
        return c
    raise EngineGap("lower() of a symbolic non-ascii character")


def str_join(sep, seq):
    sp = lift(sep)
    out = []
    for i, x in enumerate(seq):
        if i:
            out.extend(sp)
        xi = lift(x)
        if xi is None:
            raise TypeError("sequence item %d: expected str instance, %s found" % (i, type(x).__name__))
        out.extend(xi)
    return mkstr(out)


def str_to_int(s, base=10):
    items = lift(s)
    base = concretize(base)
    it = SymStr(items).strip()
    items = lift(it)
    if not items:
        raise ValueError("invalid literal for int()")
    neg = False
    if isinstance(items[0], int) and chr(items[0]) in "+-":
        neg = items[0] == 45
        items = items[1:]
    if base == 16 and len(items) >= 2 and isinstance(items[0], int) and isinstance(items[1], int) and chr(items[0]) == "0" and chr(items[1]) in "xX":
        items = items[2:]
    if not items:
        raise ValueError("invalid literal for int()")
    val = 0
    for c in items:
        if isinstance(c, int):
            d = int(chr(c), 36) if chr(c).isalnum() and ord(chr(c)) < 128 else base
        else:
            ok = z3.Or(z3.And(c.t >= 48, c.t <= 57), z3.And(c.t >= 65, c.t <= 90), z3.And(c.t >= 97, c.t <= 122)) if True else None
            w = c.w
            if not SymBool.make(z3.Or(z3.And(c.ext(w) >= 48, c.ext(w) <= 57), z3.And(c.ext(w) >= 65, c.ext(w) <= 90), z3.And(c.ext(w) >= 97, c.ext(w) <= 122))):
                raise ValueError("invalid literal for int() with base %d" % base)
            t = c.ext(w)
            dv = z3.If(t <= 57, t - 48, z3.If(t <= 90, t - 55, t - 87))
            d = SymInt.make(dv, w, 0, 35)
        if not (d < base):
            raise ValueError("invalid literal for int() with base %d" % base)
        val = val * base + d
    return -val if neg else val


# ---------------------------------------------------------------------------------------------
def int_to_items(v, base=10, upper=False, width=0, zero=False, left=False, plus=""):
    """text of an integer (str(v), '%d' % v, '%02x' % v ...) as code point items.  The number of
    digits is decided from the interval where possible and by forking otherwise (at most
    log_base(range) forks); every digit is a division by a constant."""
    if isinstance(v, SymBool):
        v = v._lift()
    if isinstance(v, int) and not isinstance(v, SymInt):
        digs = {10: "%d", 16: "%x", 8: "%o"}[base] % abs(v)
        items = [ord(c) for c in (digs.upper() if upper else digs)]
        neg = v < 0
    else:
        neg = bool(v < 0)
        a = -v if neg else v
        if isinstance(a, int):
            return int_to_items(-a if neg else a, base, upper, width, zero, left, plus)
        maxd = 1
        while base ** maxd <= a.hi:
            maxd += 1
        if zero and not left and not neg and not plus and width >= maxd:
            n = width
        else:
            n = 1
            while n < maxd and bool(a >= base ** n):
                n += 1
        items = []
        for i in reversed(range(n)):
            d = (a // (base ** i)) % base
            if isinstance(d, int):
                items.append(ord("0123456789abcdef"[d]))
                continue
            w = max(d.w, 9)
            t = d.ext(w)
            items.append(SymInt.make(z3.If(t < 10, t + 48, t + (55 if upper else 87)), w, 48, 102))
    sign = [45] if neg else ([ord(plus)] if plus else [])
    pad = max(0, width - len(items) - len(sign))
    if left:
        return sign + items + [32] * pad
    if zero:
        return sign + [48] * pad + items
    return [32] * pad + sign + items


def sym_format(fmt, args, precise=False):
    """'fmt' % args where fmt or some %s argument is symbolic text: supports %s %-Ns %Ns %% and, for concrete
    arguments, every conversion Python supports"""
    import re
    f = lift(fmt)
    if any(not isinstance(c, int) for c in f):
        raise EngineGap("symbolic format string")
    fs = "".join(chr(c) for c in f)
    tup = args if isinstance(args, tuple) else (args,)
    out = []
    pos = 0
    ai = 0
    for m in re.finditer(r"%(?:\(([^)]*)\))?([-#0 +]*)(\*|\d+)?(?:\.(\*|\d+))?[hlL]?([a-zA-Z%])", fs):
        out.extend(ord(c) for c in fs[pos:m.start()])
        pos = m.end()
        key, flags, width, prec, conv = m.groups()
        if conv == "%":
            out.append(37)
            continue
        if key is not None:
            a = args[key]
        else:
            if width == "*":
                width = str(tup[ai])
                ai += 1
            a = tup[ai]
            ai += 1
        if isinstance(a, SymStr) and conv in "sr":
            items = list(a.items)
            if prec:
                items = items[:int(prec)]
            w = int(width) if width else 0
            pad = [32] * max(0, w - len(items))
            out.extend(items + pad if "-" in flags else pad + items)
        elif precise and isinstance(a, (SymInt, SymBool)) and conv in "dixXosr" and not prec:
            base = {"x": 16, "X": 16, "o": 8}.get(conv, 10)
            out.extend(int_to_items(a, base, conv == "X", int(width) if width else 0, "0" in flags, "-" in flags,
                                    "+" if "+" in flags else (" " if " " in flags else "")))
        elif isinstance(a, (SymInt, SymBool, SymBytes, ShByteArray)):
            out.extend(ord(c) for c in "<sym>")
        else:
            spec = "%" + (flags or "") + (width or "") + (("." + prec) if prec else "") + conv
            out.extend(ord(c) for c in (spec % (a,)))
    out.extend(ord(c) for c in fs[pos:])
    if ai != len(tup) and not isinstance(args, dict):
        raise TypeError("not all arguments converted during string formatting")
    return mkstr(out)


def sym_strformat(lit, args, kwargs):
    """'lit'.format(*args, **kwargs) with symbolic integers / text among the arguments"""
    import string
    out = []
    auto = 0
    for text, field, spec, conv in string.Formatter().parse(lit):
        out.extend(ord(c) for c in text)
        if field is None:
            continue
        if conv is not None or any(c in field for c in ".["):
            raise EngineGap("str.format field %r" % (field,))
        if field == "":
            a = args[auto]
            auto += 1
        elif field.isdigit():
            a = args[int(field)]
        else:
            a = kwargs[field]
        if isinstance(a, SymStr):
            if spec:
                raise EngineGap("str.format spec for symbolic text")
            out.extend(a.items)
        elif isinstance(a, (SymInt, SymBool)):
            import re
            m = re.fullmatch(r"(0?)(\d*)([dxXo]?)", spec or "")
            if not m:
                raise EngineGap("str.format spec %r for symbolic integer" % (spec,))
            base = {"x": 16, "X": 16, "o": 8}.get(m.group(3), 10)
            out.extend(int_to_items(a, base, m.group(3) == "X", int(m.group(2) or 0), bool(m.group(1))))
        elif isinstance(a, (SymBytes, ShByteArray)):
            raise EngineGap("str.format of symbolic bytes")
        else:
            out.extend(ord(c) for c in format(a, spec or ""))
    return mkstr(out)


# ---------------------------------------------------------------------------------------------
# codecs
_ENC_ALIASES = {"utf16le": "utf_16_le", "utf16be": "utf_16_be", "utf32le": "utf_32_le", "utf32be": "utf_32_be", "utf16": "utf_16", "utf32": "utf_32", "utf8": "utf_8",
                "usascii": "ascii", "latin1": "latin_1", "iso88591": "latin_1"}


def _norm_enc(e):
    """the spelling Python's codec registry would resolve: case, '-' and '_' do not matter ('UTF-16LE' == 'utf_16_le')"""
    e = e.lower().replace("-", "_")
    return _ENC_ALIASES.get(e.replace("_", ""), e)


_SURROGATEPASS = [False]


def decode(data, encoding="utf-8", errors="strict"):
    if errors == "surrogatepass":
        # lone surrogates are let through as code points (utf-8 / utf-16 / utf-32 only, as in CPython)
        _SURROGATEPASS[0] = True
        try:
            return decode(data, encoding, "strict")
        finally:
            _SURROGATEPASS[0] = False
    items = _lift_bytes(data)
    e = _norm_enc(encoding)
    if errors != "strict":
        raise EngineGap("decode with errors=%r" % errors)
    if e in ("ascii", "us_ascii"):
        for i, b in enumerate(items):
            if not (b < 128):
                raise UnicodeDecodeError("ascii", b"\x80", 0, 1, "ordinal not in range(128)")
        return mkstr(items)
    if e in ("latin_1", "latin1", "iso_8859_1"):
        return mkstr(items)
    if e in ("utf8", "utf_8", "u8"):
        return _dec_utf8(items)
    if e in ("utf_16_le", "utf_16_be", "utf_16", "utf16", "u16"):
        return _dec_utf16(items, e)
    if e in ("utf_32_le", "utf_32_be", "utf_32", "utf32", "u32"):
        return _dec_utf32(items, e)
    raise EngineGap("codec %r not modelled" % encoding)


def _err(codec, msg):
    return UnicodeDecodeError(codec, b"\xff", 0, 1, msg)


def _dec_utf8(items):
    out = []
    i, n = 0, len(items)

    def cont(j):
        if j >= n:
            raise _err("utf-8", "unexpected end of data")
        b = items[j]
        if not (b >= 0x80) or not (b <= 0xBF):
            raise _err("utf-8", "invalid continuation byte")
        return b - 0x80
    while i < n:
        b = items[i]
        if b < 0x80:
            out.append(b)
            i += 1
        elif b < 0xC2:
            raise _err("utf-8", "invalid start byte")
        elif b < 0xE0:
            out.append((b - 0xC0) * 64 + cont(i + 1))
            i += 2
        elif b < 0xF0:
            c1, c2 = cont(i + 1), cont(i + 2)
            cp = ((b - 0xE0) * 64 + c1) * 64 + c2
            if cp < 0x800:
                raise _err("utf-8", "invalid continuation byte")
            if not _SURROGATEPASS[0] and cp >= 0xD800 and cp <= 0xDFFF:
                raise _err("utf-8", "invalid continuation byte")
            out.append(cp)
            i += 3
        elif b < 0xF5:
            c1, c2, c3 = cont(i + 1), cont(i + 2), cont(i + 3)
            cp = (((b - 0xF0) * 64 + c1) * 64 + c2) * 64 + c3
            if cp < 0x10000 or cp > 0x10FFFF:
                raise _err("utf-8", "invalid continuation byte")
            out.append(cp)
            i += 4
        else:
            raise _err("utf-8", "invalid start byte")
    return mkstr(out)


def _dec_utf16(items, e):
    import sys
    n = len(items)
    i = 0
    little = (e == "utf_16_le") or (e in ("utf_16", "utf16", "u16") and sys.byteorder == "little")
    if e in ("utf_16", "utf16", "u16") and n >= 2:
        b0, b1 = items[0], items[1]
        if b0 == 0xFF and b1 == 0xFE:
            little, i = True, 2
        elif b0 == 0xFE and b1 == 0xFF:
            little, i = False, 2
    out = []

    def unit(j):
        if j + 2 > n:
            raise _err("utf-16", "truncated data")
        lo, hi = (items[j], items[j + 1]) if little else (items[j + 1], items[j])
        return hi * 256 + lo
    while i < n:
        u = unit(i)
        i += 2
        if u >= 0xD800 and u <= 0xDBFF:
            if i >= n and _SURROGATEPASS[0]:
                out.append(u)
                continue
            if i >= n:
                raise _err("utf-16", "unexpected end of data")
            v = unit(i)
            if not (v >= 0xDC00) or not (v <= 0xDFFF):
                if _SURROGATEPASS[0]:
                    out.append(u)
                    continue
                raise _err("utf-16", "illegal UTF-16 surrogate")
            i += 2
            out.append(0x10000 + (u - 0xD800) * 1024 + (v - 0xDC00))
        elif u >= 0xDC00 and u <= 0xDFFF:
            if _SURROGATEPASS[0]:
                out.append(u)
                continue
            raise _err("utf-16", "illegal encoding")
        else:
            out.append(u)
    return mkstr(out)


def _dec_utf32(items, e):
    import sys
    n = len(items)
    i = 0
    little = (e == "utf_32_le") or (e in ("utf_32", "utf32", "u32") and sys.byteorder == "little")
    if e in ("utf_32", "utf32", "u32") and n >= 4:
        if items[0] == 0xFF and items[1] == 0xFE and items[2] == 0 and items[3] == 0:
            little, i = True, 4
        elif items[0] == 0 and items[1] == 0 and items[2] == 0xFE and items[3] == 0xFF:
            little, i = False, 4
    out = []
    while i < n:
        if i + 4 > n:
            raise _err("utf-32", "truncated data")
        bs = items[i:i + 4]
        if little:
            bs = bs[::-1]
        cp = ((bs[0] * 256 + bs[1]) * 256 + bs[2]) * 256 + bs[3]
        if cp > 0x10FFFF:
            raise _err("utf-32", "code point not in range(0x110000)")
        if not _SURROGATEPASS[0] and cp >= 0xD800 and cp <= 0xDFFF:
            raise _err("utf-32", "code point in surrogate code point range")
        out.append(cp)
        i += 4
    return mkstr(out)


def encode(s, encoding="utf-8", errors="strict"):
    import sys
    items = lift(s)
    e = _norm_enc(encoding)
    if errors != "strict":
        raise EngineGap("encode with errors=%r" % errors)

    def bad(codec):
        return UnicodeEncodeError(codec, "\ud800", 0, 1, "not encodable")
    out = []
    if e in ("ascii", "us_ascii"):
        for c in items:
            if not (c < 128):
                raise bad("ascii")
            out.append(c)
        return mkbytes(out)
    if e in ("latin_1", "latin1", "iso_8859_1"):
        for c in items:
            if not (c < 256):
                raise bad("latin-1")
            out.append(c)
        return mkbytes(out)
    if e in ("utf8", "utf_8", "u8"):
        for c in items:
            if c < 0x80:
                out.append(c)
            elif c < 0x800:
                out += [0xC0 + c // 64, 0x80 + c % 64]
            elif c < 0x10000:
                if c >= 0xD800 and c <= 0xDFFF:
                    raise bad("utf-8")
                out += [0xE0 + c // 4096, 0x80 + (c // 64) % 64, 0x80 + c % 64]
            else:
                out += [0xF0 + c // 262144, 0x80 + (c // 4096) % 64, 0x80 + (c // 64) % 64, 0x80 + c % 64]
        return mkbytes(out)
    if e in ("utf_16_le", "utf_16_be", "utf_16", "utf16", "u16"):
        little = (e == "utf_16_le") or (e in ("utf_16", "utf16", "u16") and sys.byteorder == "little")
        units = []
        if e in ("utf_16", "utf16", "u16"):
            units.append(0xFEFF)
        for c in items:
            if c < 0x10000:
                if c >= 0xD800 and c <= 0xDFFF:
                    raise bad("utf-16")
                units.append(c)
            else:
                v = c - 0x10000
                units += [0xD800 + v // 1024, 0xDC00 + v % 1024]
        for u in units:
            out += [u % 256, u // 256] if little else [u // 256, u % 256]
        return mkbytes(out)
    if e in ("utf_32_le", "utf_32_be", "utf_32", "utf32", "u32"):
        little = (e == "utf_32_le") or (e in ("utf_32", "utf32", "u32") and sys.byteorder == "little")
        cps = ([0xFEFF] if e in ("utf_32", "utf32", "u32") else []) + list(items)
        for c in cps:
            if not isinstance(c, int) or c != 0xFEFF:
                if c >= 0xD800 and c <= 0xDFFF:
                    raise bad("utf-32")
            bs = [c // 16777216, (c // 65536) % 256, (c // 256) % 256, c % 256]
            out += bs[::-1] if little else bs
        return mkbytes(out)
    raise EngineGap("codec %r not modelled" % encoding)
