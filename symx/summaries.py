"""symx.summaries -- kernel summaries under assume-guarantee (DESIGN 3.4).

`integer2bits` has a loop whose exit depends on the value (w+1 paths per field).  A *summary*
(same range check, same exceptions, bits given by a formula) may replace it on symbolic
arguments, but only after the lemma "the real function equals the summary for every input of
that (width, signedness)" has been discharged in this process from the source loaded in this
run.  If the lemma fails (e.g. the function was changed) the real code keeps being executed,
so a changed kernel is never masked.
"""
import z3
from . import engine as E
from .values import SymInt, SymBool, SymBytes, mkbytes, byte_from_term

STATE = dict(enabled=True, proven={}, used=0, lemma_queries=0, lemma_time=0.0, failed=[])


def _outcome(f, *a):
    try:
        return ("ok", f(*a))
    except E.EngineSignal:
        raise
    except Exception as e:
        return ("raise", type(e).__name__)


def summary_integer2bits(number, width, signed):
    if not width >= 1:
        raise ValueError("width must be positive")
    if signed:
        lo, hi = -(2 ** width // 2), 2 ** width // 2 - 1
    else:
        lo, hi = 0, 2 ** width - 1
    if not lo <= number:
        raise ValueError("number is out of range")
    if not number <= hi:
        raise ValueError("number is out of range")
    n = SymInt.lift(number)
    w = max(n.w, width + 1)
    t = n.ext(w)
    return mkbytes([byte_from_term(z3.ZeroExt(7, z3.Extract(width - 1 - i, width - 1 - i, t)), 0, 1) for i in range(width)])


def prove_lemma(real, width, signed):
    import time
    from .api import eq_term
    lo, hi = (-(1 << (width - 1)), (1 << (width - 1)) - 1) if signed else (0, (1 << width) - 1)
    margin = 1 << width

    def h():
        e = E.current()
        w = width + 3
        t = z3.BitVec("lemma_n", w)
        e.inputs.append(("lemma_n", "int", t))
        n = SymInt(t, w, -(1 << (w - 1)), (1 << (w - 1)) - 1)
        e.assume(z3.And(t >= lo - margin, t <= hi + margin))
        a = _outcome(real, n, width, signed)
        b = _outcome(summary_integer2bits, n, width, signed)
        if a[0] != b[0]:
            e.prove("lemma outcome kind", False)
        if a[0] == "ok":
            c = eq_term(a[1], b[1])
            e.prove("lemma bits", c if not isinstance(c, SymBool) else c.t)
        else:
            e.prove("lemma exception", a[1] == b[1])
        return "ok"
    t0 = time.time()
    res = E.explore(h, max_paths=2000)
    STATE["lemma_queries"] += res["queries"]
    STATE["lemma_time"] += time.time() - t0
    return res["status"] == "ok"


def make_integer2bits(real):
    def integer2bits(number, width, signed=False):
        if not STATE["enabled"] or not isinstance(number, (SymInt, SymBool)) or not isinstance(width, int) or isinstance(width, bool) or width < 1 or width > 64:
            return real(number, width, signed)
        key = (width, bool(signed))
        ok = STATE["proven"].get(key)
        if ok is None:
            ok = prove_lemma(real, width, bool(signed))
            STATE["proven"][key] = ok
            if not ok:
                STATE["failed"].append(key)
        if not ok:
            return real(number, width, signed)
        STATE["used"] += 1
        return summary_integer2bits(number, width, bool(signed))
    integer2bits.__wrapped__ = real
    integer2bits.__doc__ = real.__doc__
    return integer2bits


def install(mods):
    binary = mods.get("construct.lib.binary")
    if binary is None or not hasattr(binary, "integer2bits"):
        return
    real = binary.integer2bits
    wrapped = make_integer2bits(real)
    for m in mods.values():
        if m.__dict__.get("integer2bits") is real:
            m.__dict__["integer2bits"] = wrapped
