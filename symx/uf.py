"""symx.uf -- uninterpreted functions over byte strings (hash functions, codecs).

`apply_uf(name, data)` returns, per (name, input length, output length), the application of a
z3 uninterpreted function to the concatenated input bits; congruence (equal inputs give equal
outputs) is the only property the solver may use, so a verdict holds for *any* function.
In concrete mode the same name is realised by a fixed, arbitrary but deterministic function.
"""
import hashlib
import z3
from .values import SymBytes, ShByteArray, mkbytes, byte_term, byte_from_term, _lift_bytes

_FUNCS = {}


def apply_uf(name, data, outlen=4):
    items = _lift_bytes(data)
    n = len(items)
    if outlen == 0:
        return b""
    if n == 0:
        key = (name, 0, outlen)
        if key not in _FUNCS:
            _FUNCS[key] = z3.BitVec("uf_%s_0_%d" % (name, outlen), 8 * outlen)
        out = _FUNCS[key]
    else:
        key = (name, n, outlen)
        if key not in _FUNCS:
            _FUNCS[key] = z3.Function("uf_%s_%d_%d" % (name, n, outlen), z3.BitVecSort(8 * n), z3.BitVecSort(8 * outlen))
        parts = [byte_term(b) for b in items]
        arg = z3.Concat(*parts) if n > 1 else parts[0]
        out = _FUNCS[key](arg)
    from . import engine as E
    if E.ENGINE is not None:
        E.ENGINE.uf_apps.append((name, None if n == 0 else arg, out, n, outlen))
    res = [byte_from_term(z3.Extract(8 * i + 7, 8 * i, out)) for i in reversed(range(outlen))]
    return mkbytes(res)


def concrete_uf(name, data, outlen=4, table=None):
    if outlen == 0:
        return b""
    if table and name in table and bytes(data).hex() in table[name]:
        return bytes.fromhex(table[name][bytes(data).hex()])
    h = hashlib.blake2b(bytes(data), digest_size=max(1, outlen), person=name.encode()[:16]).digest()
    return h[:outlen]
