"""symx.api -- what a harness is written against.

The same harness function runs in two modes:

* symbolic  (`Sym` context): inputs are proxies, `check` is a solver query over the whole path;
* concrete  (`Conc` context): inputs come from a solver model (or a test vector), `check` is a
  Python comparison.  Used to replay counterexamples and witnesses on the pristine library.

A harness has the signature  harness(ctx, C, params)  where `ctx` is one of the two contexts
and `C` the copy of the package to drive (instrumented / pristine).
"""
import io as _io

import z3

from . import engine as E
from .values import (SymInt, SymBool, SymBytes, ShByteArray, concretize, mkbytes, tobool, minwidth,
                     bytes_eq_term, _lift_bytes, EngineGap)
from .floats import SymFloat
from . import shims


class Ok:
    __slots__ = ("value",)
    ok = True

    def __init__(self, value):
        self.value = value

    def __repr__(self):
        return "Ok(%r)" % (self.value,)


class Raised:
    __slots__ = ("exc",)
    ok = False

    def __init__(self, exc):
        self.exc = exc

    @property
    def kind(self):
        return type(self.exc).__name__

    def isa(self, C, name):
        return isinstance(self.exc, getattr(C, name))

    def __repr__(self):
        return "Raised(%s)" % (type(self.exc).__name__,)


def outcome(fn, *a, **k):
    """run fn, return Ok(value) or Raised(exception).  Engine signals pass through."""
    try:
        return Ok(fn(*a, **k))
    except Exception as e:          # never BaseException: engine control flow must escape
        if isinstance(e, (TypeError, AttributeError)):
            shims.symx_exc(e)
        return Raised(e)


class ReplayMismatch(Exception):
    pass


class NonTermination(BaseException):
    """raised inside fn by time_capped when its CPU budget is used up"""


def time_capped(fn, seconds, *a, **k):
    """outcome(fn) under a CPU-time cap (ITIMER_VIRTUAL): Raised(NonTermination) when the cap is hit.
    Used for termination obligations; the cap is orders of magnitude above the cost of the bounded inputs."""
    import signal

    def _h(signum, frame):
        raise NonTermination("no result within %ss of CPU time" % seconds)
    old = signal.signal(signal.SIGVTALRM, _h)
    signal.setitimer(signal.ITIMER_VIRTUAL, seconds)
    try:
        return outcome(fn, *a, **k)
    except NonTermination as e:          # BaseException: the code under test cannot swallow it
        return Raised(e)
    finally:
        signal.setitimer(signal.ITIMER_VIRTUAL, 0)
        signal.signal(signal.SIGVTALRM, old)


# ---------------------------------------------------------------------------------------------
def _is_private(k):
    return isinstance(k, str) and k.startswith("_")


def eq_term(a, b, ignore_private=True):
    """structural equality as a z3 Bool / Python bool, never forking.
    dicts compare like construct Containers (underscore keys ignored), lists element-wise."""
    if isinstance(a, SymFloat) or isinstance(b, SymFloat):
        fa, fb = SymFloat.lift(a), SymFloat.lift(b)
        if fa is None or fb is None:
            return False
        if fa.t.eq(fb.t):
            return True               # identical term: equal as a value (NaN counted equal to itself)
        return z3.Or(z3.fpEQ(fa.t, fb.t), z3.And(z3.fpIsNaN(fa.t), z3.fpIsNaN(fb.t)))
    if isinstance(a, (SymInt, SymBool)) or isinstance(b, (SymInt, SymBool)):
        if isinstance(a, (SymBool, bool)) and isinstance(b, (SymBool, bool)):
            ta, tb = tobool(a), tobool(b)
            if isinstance(ta, bool) and isinstance(tb, bool):
                return ta == tb
            if isinstance(ta, bool):
                return tb if ta else z3.Not(tb)
            if isinstance(tb, bool):
                return ta if tb else z3.Not(ta)
            return ta == tb
        if not isinstance(a, (SymInt, SymBool, int)) or not isinstance(b, (SymInt, SymBool, int)):
            return False
        r = (SymInt.lift(a) == b)
        return r.t if isinstance(r, SymBool) else bool(r)
    from .strings import SymStr, lift as _lift_str, _eq_items
    if isinstance(a, SymStr) or isinstance(b, SymStr):
        la, lb = _lift_str(a), _lift_str(b)
        if la is None or lb is None:
            return False
        return _eq_items(la, lb)
    if isinstance(a, (SymBytes, ShByteArray)) or isinstance(b, (SymBytes, ShByteArray)):
        la, lb = _lift_bytes(a), _lift_bytes(b)
        if la is None or lb is None:
            return False
        return bytes_eq_term(la, lb)
    if isinstance(a, dict) and isinstance(b, dict):
        ka = [k for k in dict.keys(a) if not (ignore_private and _is_private(k))]
        kb = [k for k in dict.keys(b) if not (ignore_private and _is_private(k))]
        if set(ka) != set(kb):
            return False
        return and_terms([eq_term(dict.__getitem__(a, k), dict.__getitem__(b, k), ignore_private) for k in ka])
    if isinstance(a, (list, tuple)) and isinstance(b, (list, tuple)):
        la, lb = list(a), list(b)
        if len(la) != len(lb):
            return False
        return and_terms([eq_term(x, y, ignore_private) for x, y in zip(la, lb)])
    if isinstance(a, dict) or isinstance(b, dict) or isinstance(a, (list, tuple)) or isinstance(b, (list, tuple)):
        return False
    try:
        r = (a == b)
    except Exception:
        return False
    if isinstance(r, SymBool):
        return r.t
    return bool(r)


def and_terms(ts):
    out = []
    for t in ts:
        if isinstance(t, SymBool):
            t = t.t
        if isinstance(t, bool):
            if not t:
                return False
            continue
        out.append(t)
    if not out:
        return True
    return z3.And(*out) if len(out) > 1 else out[0]


def or_terms(ts):
    out = []
    for t in ts:
        if isinstance(t, SymBool):
            t = t.t
        if isinstance(t, bool):
            if t:
                return True
            continue
        out.append(t)
    if not out:
        return False
    return z3.Or(*out) if len(out) > 1 else out[0]


def not_term(t):
    if isinstance(t, SymBool):
        t = t.t
    if isinstance(t, bool):
        return not t
    return z3.Not(t)


def implies(a, b):
    return or_terms([not_term(a), b])


def concrete_eq(a, b, ignore_private=True):
    if isinstance(a, float) and isinstance(b, float):
        return a == b or (a != a and b != b)
    if isinstance(a, dict) and isinstance(b, dict):
        ka = [k for k in dict.keys(a) if not (ignore_private and _is_private(k))]
        kb = [k for k in dict.keys(b) if not (ignore_private and _is_private(k))]
        if set(ka) != set(kb):
            return False
        return all(concrete_eq(dict.__getitem__(a, k), dict.__getitem__(b, k), ignore_private) for k in ka)
    if isinstance(a, (list, tuple)) and isinstance(b, (list, tuple)):
        return len(a) == len(b) and all(concrete_eq(x, y, ignore_private) for x, y in zip(a, b))
    if isinstance(a, dict) or isinstance(b, dict) or isinstance(a, (list, tuple)) or isinstance(b, (list, tuple)):
        return False
    if isinstance(a, (bytes, bytearray)) and isinstance(b, (bytes, bytearray)):
        return bytes(a) == bytes(b)
    if isinstance(a, bool) != isinstance(b, bool) and isinstance(a, (int, bool)) and isinstance(b, (int, bool)):
        return int(a) == int(b)
    try:
        return bool(a == b)
    except Exception:
        return False


# ---------------------------------------------------------------------------------------------
class Sym:
    """symbolic context"""
    symbolic = True

    def __init__(self, copy):
        self.C = copy
        self.eng = E.current()

    # inputs
    def int(self, name, lo, hi):
        e = E.current()
        name = e.fresh_name(name)
        if lo == hi:
            e.inputs.append((name, "const", lo))
            return lo
        w = minwidth(lo, hi)
        t = z3.BitVec(name, w)
        e.inputs.append((name, "int", t))
        if lo != -(1 << (w - 1)) or hi != (1 << (w - 1)) - 1:
            e.assume(z3.And(t >= lo, t <= hi))
        return SymInt(t, w, lo, hi)

    def bool(self, name):
        e = E.current()
        name = e.fresh_name(name)
        t = z3.Bool(name)
        e.inputs.append((name, "bool", t))
        return SymBool(t)

    def bytes(self, name, n):
        e = E.current()
        name = e.fresh_name(name)
        terms = [z3.BitVec("%s[%d]" % (name, i), 8) for i in range(n)]
        e.inputs.append((name, "bytes", terms))
        if n == 0:
            return b""
        return SymBytes([SymInt(z3.ZeroExt(1, t), 9, 0, 255) for t in terms])

    def str(self, name, n, maxcp=0x10FFFF):
        """text of n symbolic code points in 0..maxcp (surrogates excluded: not valid str content for codecs)"""
        from .strings import SymStr
        e = E.current()
        name = e.fresh_name(name)
        w = minwidth(0, maxcp)
        terms = [z3.BitVec("%s[%d]" % (name, i), w) for i in range(n)]
        e.inputs.append((name, "str", terms))
        if n == 0:
            return ""
        for t in terms:
            e.assume(z3.And(t >= 0, t <= maxcp, z3.Or(t < 0xD800, t > 0xDFFF)))
        return SymStr([SymInt(t, w, 0, maxcp) for t in terms])

    def choice(self, name, options):
        """pick one of a few concrete options; forks (each option is a path)"""
        options = list(options)
        i = self.int(name, 0, len(options) - 1)
        return options[concretize(i)]

    def stream(self, data=b""):
        return shims.ShBytesIO(data)

    def file_put(self, name, data):
        """create a file with (possibly symbolic) contents; returns the path to hand to parse_file / build_file"""
        path = "symx://" + name
        shims.FILES[path] = data
        return path

    def file_get(self, path):
        return shims.FILES.get(path)

    # control
    def assume(self, cond):
        c = tobool(cond) if isinstance(cond, (SymBool, SymInt)) else cond
        E.current().assume(c)

    def check(self, label, cond):
        c = tobool(cond) if isinstance(cond, (SymBool, SymInt)) else cond
        E.current().prove(label, c)

    def observe(self, label, value):
        E.current().observations.append((label, value))

    def eq(self, a, b):
        return eq_term(a, b)

    def fork(self, cond):
        """explicit fork on a condition; returns Python bool"""
        c = tobool(cond) if isinstance(cond, (SymBool, SymInt)) else cond
        return E.current().branch(c) if not isinstance(c, bool) else c

    def feasible(self, cond):
        c = tobool(cond) if isinstance(cond, (SymBool, SymInt)) else cond
        return E.current().feasible(c)

    def concretize(self, x):
        return concretize(x)

    def uf(self, name, *args):
        from .uf import apply_uf
        return apply_uf(name, *args)


class Conc:
    """concrete context: inputs from a model"""
    symbolic = False

    def __init__(self, copy, values):
        self.C = copy
        self.values = dict(values)
        self.failed = []
        self.observations = []
        self.counters = {}
        self.assumption_failed = False

    def _name(self, base):
        n = self.counters.get(base, 0)
        self.counters[base] = n + 1
        return base if n == 0 else "%s#%d" % (base, n)

    def _get(self, name, default):
        if name in self.values:
            return self.values[name]
        return default

    def int(self, name, lo, hi):
        name = self._name(name)
        v = self._get(name, lo)
        if not lo <= v <= hi:
            raise ReplayMismatch("value of %s outside its domain" % name)
        return v

    def bool(self, name):
        return bool(self._get(self._name(name), False))

    def bytes(self, name, n):
        name = self._name(name)
        v = self._get(name, "00" * n)
        v = bytes.fromhex(v) if isinstance(v, str) else bytes(v)
        if len(v) != n:
            raise ReplayMismatch("length of %s" % name)
        return v

    def str(self, name, n, maxcp=0x10FFFF):
        name = self._name(name)
        v = self._get(name, [32] * n)
        return "".join(chr(c) for c in v)

    def choice(self, name, options):
        options = list(options)
        return options[self.int(name, 0, len(options) - 1)]

    def stream(self, data=b""):
        return _io.BytesIO(data)

    def file_put(self, name, data):
        import tempfile, os
        d = getattr(self, "_tmpdir", None)
        if d is None:
            d = self._tmpdir = tempfile.mkdtemp(prefix="symx_files_")
            import atexit, shutil
            atexit.register(shutil.rmtree, d, True)
        path = os.path.join(d, name)
        with open(path, "wb") as f:
            f.write(bytes(data))
        return path

    def file_get(self, path):
        import os
        if not os.path.exists(path):
            return None
        with open(path, "rb") as f:
            return f.read()

    def assume(self, cond):
        if not cond:
            self.assumption_failed = True
            raise E.PathAbort("assumption false under replayed values")

    def check(self, label, cond):
        if not cond:
            self.failed.append(label)
            raise ConcreteViolation(label)

    def observe(self, label, value):
        self.observations.append((label, value))

    def eq(self, a, b):
        return concrete_eq(a, b)

    def fork(self, cond):
        return bool(cond)

    def feasible(self, cond):
        return bool(cond)

    def concretize(self, x):
        return x

    def uf(self, name, *args):
        from .uf import concrete_uf
        return concrete_uf(name, *args, table=self.values.get("__uf__"))


class ConcreteViolation(BaseException):
    def __init__(self, label):
        super().__init__(label)
        self.label = label


def model_value(m, v):
    """concrete Python value of a (possibly symbolic, possibly nested) value under model m"""
    if isinstance(v, SymInt):
        return m.eval(v.t, model_completion=True).as_signed_long()
    if isinstance(v, SymBool):
        return bool(z3.is_true(m.eval(v.t, model_completion=True)))
    if isinstance(v, (SymBytes, ShByteArray)):
        return bytes(model_value(m, b) for b in v.items)
    from .strings import SymStr
    if isinstance(v, SymStr):
        return "".join(chr(model_value(m, c)) for c in v.items)
    if isinstance(v, SymFloat):
        import struct as _st
        r = m.eval(v.t, model_completion=True)
        if z3.is_true(z3.simplify(z3.fpIsNaN(r))):
            return float("nan")
        bits = z3.simplify(z3.fpToIEEEBV(r))
        return _st.unpack(">d", _st.pack(">Q", bits.as_long()))[0]
    if isinstance(v, dict):
        return {k: model_value(m, x) for k, x in dict.items(v) if not _is_private(k)}
    if isinstance(v, (list, tuple)):
        return [model_value(m, x) for x in v]
    if isinstance(v, Ok):
        return ("ok", model_value(m, v.value))
    if isinstance(v, Raised):
        return ("raised", type(v.exc).__name__)
    return v


def plain(v):
    """normalise a concrete observation for comparison with model_value output"""
    if isinstance(v, dict):
        return {k: plain(x) for k, x in dict.items(v) if not _is_private(k)}
    if isinstance(v, (list, tuple)):
        return [plain(x) for x in v]
    if isinstance(v, bytearray):
        return bytes(v)
    if isinstance(v, Ok):
        return ("ok", plain(v.value))
    if isinstance(v, Raised):
        return ("raised", type(v.exc).__name__)
    if isinstance(v, bool):
        return v
    if isinstance(v, int):
        return int(v)
    if isinstance(v, str):
        return str(v)
    if isinstance(v, bytes):
        return bytes(v)
    return v
