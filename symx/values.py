"""symx.values -- symbolic stand-ins for int, bool, bytes, bytearray.

SymInt   signed bit-vector whose width grows with every operation, so nothing ever
         wraps: exact Python integer semantics for bounded inputs.  A conservative
         interval [lo, hi] is carried along and keeps the width minimal.
SymBool  z3 Bool; __bool__ is the fork point.
SymBytes tuple of byte values (int | SymInt in 0..255) of concrete length.
"""
import z3
from . import engine as E

EngineGap = E.EngineGap
BoundExceeded = E.BoundExceeded


def eng():
    e = E.ENGINE
    if e is None:
        raise EngineGap("symbolic value used outside an exploration")
    return e


def minwidth(lo, hi):
    w = 1
    while not (-(1 << (w - 1)) <= lo and hi <= (1 << (w - 1)) - 1):
        w += 1
    return w


def is_sym(x):
    return isinstance(x, (SymInt, SymBool, SymBytes, ShByteArray)) and not _all_concrete(x)


def _all_concrete(x):
    if isinstance(x, (SymBytes, ShByteArray)):
        return all(isinstance(b, int) for b in x.items)
    return False


# ------------------------------------------------------------------------------------------------
class SymBool:
    __slots__ = ("t",)

    def __init__(self, t):
        self.t = t

    @staticmethod
    def make(t):
        """returns a Python bool when the term is constant"""
        if isinstance(t, bool):
            return t
        t = z3.simplify(t)
        if z3.is_true(t):
            return True
        if z3.is_false(t):
            return False
        return SymBool(t)

    def __bool__(self):
        return eng().branch(self.t)

    def _lift(self):
        return SymInt(z3.If(self.t, z3.BitVecVal(1, 2), z3.BitVecVal(0, 2)), 2, 0, 1)

    def __eq__(self, o):
        if isinstance(o, SymBool):
            return SymBool.make(self.t == o.t)
        if isinstance(o, bool):
            return SymBool.make(self.t if o else z3.Not(self.t))
        if isinstance(o, (int, SymInt)):
            return self._lift() == o
        return False

    def __ne__(self, o):
        r = self.__eq__(o)
        return SymBool.make(z3.Not(r.t)) if isinstance(r, SymBool) else (not r)

    def __and__(self, o):
        if isinstance(o, SymBool):
            return SymBool.make(z3.And(self.t, o.t))
        if isinstance(o, bool):
            return self if o else False
        return self._lift() & o

    __rand__ = __and__

    def __or__(self, o):
        if isinstance(o, SymBool):
            return SymBool.make(z3.Or(self.t, o.t))
        if isinstance(o, bool):
            return True if o else self
        return self._lift() | o

    __ror__ = __or__

    def __xor__(self, o):
        if isinstance(o, SymBool):
            return SymBool.make(z3.Xor(self.t, o.t))
        if isinstance(o, bool):
            return SymBool.make(z3.Not(self.t)) if o else self
        return self._lift() ^ o

    __rxor__ = __xor__

    def __hash__(self):
        return hash(bool(self))

    def __index__(self):
        return int(bool(self))

    __int__ = __index__

    def __repr__(self):
        return "<symbool>"

    __str__ = __repr__

    def __format__(self, spec):
        return "<symbool>"


def _arith(name):
    def f(self, o):
        return getattr(self._lift(), name)(o)
    return f


for _n in ("add", "radd", "sub", "rsub", "mul", "rmul", "floordiv", "rfloordiv", "mod", "rmod", "lshift",
           "rlshift", "rshift", "rrshift", "pow", "rpow", "lt", "le", "gt", "ge", "truediv", "rtruediv"):
    setattr(SymBool, "__%s__" % _n, _arith("__%s__" % _n))
for _n in ("neg", "pos", "abs", "invert"):
    setattr(SymBool, "__%s__" % _n, (lambda n: lambda self: getattr(self._lift(), n)())("__%s__" % _n))


def tobool(x):
    """z3 Bool term (or Python bool) for the truth value of x, without forking"""
    if isinstance(x, SymBool):
        return x.t
    if isinstance(x, SymInt):
        return x.t != 0
    return bool(x)


# ------------------------------------------------------------------------------------------------
class SymInt:
    __slots__ = ("t", "w", "lo", "hi")

    def __init__(self, t, w, lo, hi):
        mw = minwidth(lo, hi)
        if mw < w:
            t = z3.Extract(mw - 1, 0, t)
            w = mw
        self.t = t
        self.w = w
        self.lo = lo
        self.hi = hi

    @staticmethod
    def make(t, w, lo, hi):
        """normalising constructor: returns a Python int when the interval is a point"""
        if lo == hi:
            return lo
        s = SymInt(t, w, lo, hi)
        st = z3.simplify(s.t)
        if z3.is_bv_value(st):
            return st.as_signed_long()
        s.t = st
        return s

    @staticmethod
    def const(v):
        w = minwidth(v, v)
        return SymInt(z3.BitVecVal(v, w), w, v, v)

    @staticmethod
    def lift(x):
        if isinstance(x, SymInt):
            return x
        if isinstance(x, SymBool):
            return x._lift()
        if isinstance(x, (bool, int)):
            return SymInt.const(int(x))
        return None

    def ext(self, w):
        if w == self.w:
            return self.t
        if w < self.w:
            raise AssertionError("narrowing ext")
        return z3.SignExt(w - self.w, self.t)

    # ---- arithmetic ----
    def __add__(self, o):
        o = SymInt.lift(o)
        if o is None:
            return NotImplemented
        lo, hi = self.lo + o.lo, self.hi + o.hi
        w = max(minwidth(lo, hi), self.w, o.w)
        return SymInt.make(self.ext(w) + o.ext(w), w, lo, hi)

    __radd__ = __add__

    def __sub__(self, o):
        o = SymInt.lift(o)
        if o is None:
            return NotImplemented
        lo, hi = self.lo - o.hi, self.hi - o.lo
        w = max(minwidth(lo, hi), self.w, o.w)
        return SymInt.make(self.ext(w) - o.ext(w), w, lo, hi)

    def __rsub__(self, o):
        o = SymInt.lift(o)
        if o is None:
            return NotImplemented
        return o.__sub__(self)

    def __neg__(self):
        return SymInt.const(0) - self

    def __pos__(self):
        return self

    def __invert__(self):
        return (-self) - 1

    def __abs__(self):
        if self.lo >= 0:
            return self
        lo = 0 if self.hi >= 0 else min(abs(self.lo), abs(self.hi))
        hi = max(abs(self.lo), abs(self.hi))
        w = max(self.w + 1, minwidth(lo, hi))
        t = self.ext(w)
        return SymInt.make(z3.If(t < 0, -t, t), w, lo, hi)

    def __mul__(self, o):
        o = SymInt.lift(o)
        if o is None:
            return NotImplemented
        c = [self.lo * o.lo, self.lo * o.hi, self.hi * o.lo, self.hi * o.hi]
        lo, hi = min(c), max(c)
        w = max(minwidth(lo, hi), self.w, o.w)
        return SymInt.make(self.ext(w) * o.ext(w), w, lo, hi)

    __rmul__ = __mul__

    def _bit(self, o, kind):
        o = SymInt.lift(o)
        if o is None:
            return NotImplemented
        w = max(self.w, o.w)
        a, b = self.ext(w), o.ext(w)
        full = (-(1 << (w - 1)), (1 << (w - 1)) - 1)
        if kind == "and":
            t = a & b
            if self.lo >= 0 and o.lo >= 0:
                lo, hi = 0, min(self.hi, o.hi)
            elif self.lo >= 0:
                lo, hi = 0, self.hi
            elif o.lo >= 0:
                lo, hi = 0, o.hi
            else:
                lo, hi = full
        else:
            t = (a | b) if kind == "or" else (a ^ b)
            if self.lo >= 0 and o.lo >= 0:
                m = max(self.hi, o.hi)
                lo, hi = 0, (1 << m.bit_length()) - 1
                if kind == "or":
                    lo = max(self.lo, o.lo)
            else:
                lo, hi = full
        return SymInt.make(t, w, lo, hi)

    def __and__(self, o):
        return self._bit(o, "and")

    __rand__ = __and__

    def __or__(self, o):
        return self._bit(o, "or")

    __ror__ = __or__

    def __xor__(self, o):
        return self._bit(o, "xor")

    __rxor__ = __xor__

    def __lshift__(self, k):
        if isinstance(k, (SymInt, SymBool)):
            k = concretize(k)
        if not isinstance(k, int):
            return NotImplemented
        if k < 0:
            raise ValueError("negative shift count")
        if k > 4096:
            raise BoundExceeded("shift amount %d" % k)
        w = self.w + k
        return SymInt.make(self.ext(w) << k, w, self.lo << k, self.hi << k)

    def __rlshift__(self, o):
        k = concretize(self)
        return o << k

    def __rshift__(self, k):
        if isinstance(k, (SymInt, SymBool)):
            k = concretize(k)
        if not isinstance(k, int):
            return NotImplemented
        if k < 0:
            raise ValueError("negative shift count")
        k2 = min(k, self.w - 1)
        return SymInt.make(self.t >> k2, self.w, self.lo >> k, self.hi >> k)

    def __rrshift__(self, o):
        k = concretize(self)
        return o >> k

    def __mod__(self, m):
        if isinstance(m, SymBool):
            m = m._lift()
        if isinstance(m, SymInt):
            return _sym_divmod(self, m)[1]
        if not isinstance(m, int):
            return NotImplemented
        if m == 0:
            raise ZeroDivisionError("integer modulo by zero")
        if m > 0 and self.lo >= 0 and self.hi < m:
            return self
        if m > 0 and (m & (m - 1)) == 0:
            k = m.bit_length() - 1
            if k == 0:
                return 0
            w = max(self.w, k + 1)
            t = z3.ZeroExt(1, z3.Extract(k - 1, 0, self.ext(w)))
            return SymInt.make(t, k + 1, 0, m - 1)
        w = max(self.w, minwidth(m, m)) + 1
        t = z3.SRem(self.ext(w), z3.BitVecVal(m, w))
        # Python's % : sign of the result follows the divisor
        mm = z3.BitVecVal(m, w)
        t = z3.If(z3.And(t != 0, (t < 0) != (mm < 0)), t + mm, t)
        lo, hi = (0, m - 1) if m > 0 else (m + 1, 0)
        return SymInt.make(t, w, lo, hi)

    def __rmod__(self, o):
        o = SymInt.lift(o)
        if o is None:
            return NotImplemented
        return _sym_divmod(o, self)[1]

    def __floordiv__(self, m):
        if isinstance(m, SymBool):
            m = m._lift()
        if isinstance(m, SymInt):
            return _sym_divmod(self, m)[0]
        if not isinstance(m, int):
            return NotImplemented
        if m == 0:
            raise ZeroDivisionError("integer division or modulo by zero")
        c = [self.lo // m, self.hi // m]
        lo, hi = min(c), max(c)
        if m > 0 and (m & (m - 1)) == 0:
            return self >> (m.bit_length() - 1)
        r = self % m
        q = self - r                      # exact multiple of m
        q = SymInt.lift(q)
        w = max(q.w, minwidth(m, m)) + 1
        t = q.ext(w) / z3.BitVecVal(m, w)  # bvsdiv, exact here
        return SymInt.make(t, w, lo, hi)

    def __rfloordiv__(self, o):
        o = SymInt.lift(o)
        if o is None:
            return NotImplemented
        return _sym_divmod(o, self)[0]

    def __divmod__(self, m):
        return (self // m, self % m)

    def __truediv__(self, o):
        from .floats import int_truediv
        return int_truediv(self, o)

    def __rtruediv__(self, o):
        from .floats import int_truediv
        return int_truediv(o, self)

    def __pow__(self, k, mod=None):
        if mod is not None:
            return pow(concretize(self), concretize(k), concretize(mod))
        if isinstance(k, (SymInt, SymBool)):
            k = concretize(k)
        if not isinstance(k, int):
            return NotImplemented
        if k < 0:
            return concretize(self) ** k
        if k > 64:
            raise BoundExceeded("exponent %d" % k)
        r = 1
        for _ in range(k):
            r = r * self
        return r

    def __rpow__(self, o):
        k = concretize(self)
        return o ** k

    # ---- comparisons ----
    def _cmp(self, o, op):
        o = SymInt.lift(o)
        if o is None:
            return NotImplemented
        # interval fast paths
        if op == "lt":
            if self.hi < o.lo:
                return True
            if self.lo >= o.hi:
                return False
        elif op == "le":
            if self.hi <= o.lo:
                return True
            if self.lo > o.hi:
                return False
        elif op == "gt":
            if self.lo > o.hi:
                return True
            if self.hi <= o.lo:
                return False
        elif op == "ge":
            if self.lo >= o.hi:
                return True
            if self.hi < o.lo:
                return False
        elif op in ("eq", "ne"):
            if self.hi < o.lo or self.lo > o.hi:
                return op == "ne"
        w = max(self.w, o.w)
        a, b = self.ext(w), o.ext(w)
        if op == "lt":
            t = a < b
        elif op == "le":
            t = a <= b
        elif op == "gt":
            t = a > b
        elif op == "ge":
            t = a >= b
        elif op == "eq":
            t = a == b
        else:
            t = a != b
        return SymBool.make(t)

    def __lt__(self, o):
        return self._cmp(o, "lt")

    def __le__(self, o):
        return self._cmp(o, "le")

    def __gt__(self, o):
        return self._cmp(o, "gt")

    def __ge__(self, o):
        return self._cmp(o, "ge")

    def __eq__(self, o):
        r = self._cmp(o, "eq")
        if r is NotImplemented:
            if isinstance(o, SymFloatBase):
                return o.__eq__(self)
            return False
        return r

    def __ne__(self, o):
        r = self._cmp(o, "ne")
        if r is NotImplemented:
            if isinstance(o, SymFloatBase):
                return o.__ne__(self)
            return True
        return r

    def __bool__(self):
        if self.lo > 0 or self.hi < 0:
            return True
        return eng().branch(self.t != 0)

    def __index__(self):
        return concretize(self)

    __int__ = __index__

    def __hash__(self):
        return hash(concretize(self))

    def __repr__(self):
        return "<sym>"

    __str__ = __repr__

    def __format__(self, spec):
        return "<sym>"

    def bit_length(self):
        return concretize(self).bit_length()

    def to_bytes(self, length, byteorder="big", *, signed=False):
        return int_to_bytes(self, length, byteorder, signed=signed)

    def __float__(self):
        raise EngineGap("float(SymInt)")


def _sym_divmod(a, m):
    """Python floor division / modulo with a symbolic divisor (only m == 0 forks)"""
    if not m:
        raise ZeroDivisionError("integer division or modulo by zero")
    w = max(a.w, m.w) + 1
    A, M = a.ext(w), m.ext(w)
    q = A / M                       # bvsdiv: truncating
    r = z3.SRem(A, M)               # sign follows the dividend
    adj = z3.And(r != 0, (r < 0) != (M < 0))
    q = z3.If(adj, q - 1, q)
    r = z3.If(adj, r + M, r)
    amax = max(abs(a.lo), abs(a.hi))
    mmax = max(abs(m.lo), abs(m.hi))
    qq = SymInt.make(q, w, -amax - 1, amax + 1)
    rr = SymInt.make(r, w, min(0, m.lo + 1), max(0, m.hi - 1))
    return qq, rr


class SymFloatBase:
    """marker base so that SymInt.__eq__ can defer to float proxies"""
    __slots__ = ()


def concretize(x):
    """fork over every feasible value of x on this path (sound: all values are covered)"""
    if isinstance(x, SymBool):
        return bool(x)
    if not isinstance(x, SymInt):
        return x
    e = eng()
    n = 0
    wide = (x.hi - x.lo) > e.max_picks
    while True:
        val, taken = e.pick(x.t, prefer=(x.hi, x.lo) if wide else ())
        if taken:
            return val
        n += 1
        if n > e.max_picks:
            raise BoundExceeded("more than %d values for one concretisation" % e.max_picks)


def byte_term(b):
    """8-bit z3 term for a byte value (int | SymInt 0..255)"""
    if isinstance(b, SymInt):
        if b.w >= 8:
            return z3.Extract(7, 0, b.t)
        return z3.SignExt(8 - b.w, b.t)   # 0..255 guaranteed non-negative unless w<=8 and lo>=0
    if isinstance(b, SymBool):
        return z3.If(b.t, z3.BitVecVal(1, 8), z3.BitVecVal(0, 8))
    return z3.BitVecVal(int(b) & 0xFF, 8)


def byte_from_term(t8, lo=0, hi=255):
    """SymInt in 0..255 from an 8-bit z3 term"""
    return SymInt.make(z3.ZeroExt(1, t8), 9, lo, hi)


def int_to_bytes(number, length, byteorder="big", *, signed=False):
    length = concretize(length)
    if not isinstance(number, (SymInt, SymBool)):
        return int.to_bytes(number, length, byteorder, signed=signed)
    number = SymInt.lift(number)
    if length < 0:
        raise ValueError("length argument must be non-negative")
    lo, hi = (-(1 << (8 * length - 1)), (1 << (8 * length - 1)) - 1) if (signed and length) else (0, (1 << (8 * length)) - 1)
    if not signed and number < 0:
        raise OverflowError("can't convert negative int to unsigned")
    if not (number >= lo):
        raise OverflowError("int too big to convert")
    if not (number <= hi):
        raise OverflowError("int too big to convert")
    if length == 0:
        return b""
    w = max(8 * length + 1, number.w)
    t = number.ext(w)
    items = [byte_from_term(z3.Extract(8 * i + 7, 8 * i, t)) for i in reversed(range(length))]
    if byteorder == "little":
        items.reverse()
    elif byteorder != "big":
        raise ValueError("byteorder must be either 'little' or 'big'")
    return mkbytes(items)


def int_from_bytes(data, byteorder="big", *, signed=False):
    if isinstance(data, ShByteArray):
        data = SymBytes(data.items)
    if not isinstance(data, SymBytes):
        return int.from_bytes(data, byteorder, signed=signed)
    items = list(data.items)
    if byteorder == "little":
        items.reverse()
    elif byteorder != "big":
        raise ValueError("byteorder must be either 'little' or 'big'")
    n = len(items)
    if n == 0:
        return 0
    parts = [byte_term(b) for b in items]
    t = z3.Concat(*parts) if n > 1 else parts[0]
    if signed:
        return SymInt.make(t, 8 * n, -(1 << (8 * n - 1)), (1 << (8 * n - 1)) - 1)
    return SymInt.make(z3.ZeroExt(1, t), 8 * n + 1, 0, (1 << (8 * n)) - 1)


# ------------------------------------------------------------------------------------------------
def mkbytes(items):
    """bytes when every item is concrete, SymBytes otherwise"""
    items = tuple(items)
    out = []
    conc = True
    for b in items:
        if isinstance(b, int) and not isinstance(b, bool):
            if not 0 <= b <= 255:
                raise ValueError("bytes must be in range(0, 256)")
            out.append(b)
        elif isinstance(b, bool):
            out.append(int(b))
        elif isinstance(b, SymBool):
            out.append(b._lift())
            conc = False
        elif isinstance(b, SymInt):
            if b.lo < 0 or b.hi > 255:
                if not (b >= 0):
                    raise ValueError("bytes must be in range(0, 256)")
                if not (b <= 255):
                    raise ValueError("bytes must be in range(0, 256)")
                b = byte_from_term(byte_term_wide(b))
            if isinstance(b, int):
                out.append(b)
            else:
                out.append(b)
                conc = False
        else:
            raise TypeError("'%s' object cannot be interpreted as an integer" % type(b).__name__)
    if conc:
        return bytes(out)
    return SymBytes(out)


def byte_term_wide(b):
    """low 8 bits of a SymInt already known (by path condition) to lie in 0..255"""
    if b.w >= 8:
        return z3.Extract(7, 0, b.t)
    return z3.SignExt(8 - b.w, b.t)


def _lift_bytes(x):
    if isinstance(x, SymBytes):
        return x.items
    if isinstance(x, ShByteArray):
        return tuple(x.items)
    if isinstance(x, (bytes, bytearray)):
        return tuple(x)
    if isinstance(x, memoryview):
        return tuple(x.tobytes())
    return None


def bytes_eq_term(a, b):
    """z3 Bool / Python bool: equality of two byte sequences (tuples of items)"""
    if len(a) != len(b):
        return False
    conj = []
    for x, y in zip(a, b):
        if isinstance(x, int) and isinstance(y, int):
            if x != y:
                return False
            continue
        r = (x == y) if isinstance(x, (SymInt, SymBool)) else (y == x)
        if isinstance(r, SymBool):
            conj.append(r.t)
        elif not r:
            return False
    if not conj:
        return True
    return z3.And(*conj) if len(conj) > 1 else conj[0]


class SymBytes:
    """immutable byte string with symbolic contents and concrete length"""
    __slots__ = ("items",)

    def __init__(self, items):
        self.items = tuple(items)

    def __len__(self):
        return len(self.items)

    def __bool__(self):
        return len(self.items) > 0

    def __iter__(self):
        return iter(self.items)

    def __getitem__(self, i):
        if isinstance(i, slice):
            i = slice(concretize(i.start), concretize(i.stop), concretize(i.step))
            return mkbytes(self.items[i])
        if isinstance(i, (SymInt, SymBool)):
            return sym_index(self.items, i)
        return self.items[i]

    def __add__(self, o):
        o = _lift_bytes(o)
        if o is None:
            return NotImplemented
        return mkbytes(self.items + o)

    def __radd__(self, o):
        o = _lift_bytes(o)
        if o is None:
            return NotImplemented
        return mkbytes(o + self.items)

    def __mul__(self, n):
        return mkbytes(self.items * concretize(n))

    __rmul__ = __mul__

    def __eq__(self, o):
        o = _lift_bytes(o)
        if o is None:
            return False
        return SymBool.make(bytes_eq_term(self.items, o))

    def __ne__(self, o):
        r = self.__eq__(o)
        return SymBool.make(z3.Not(r.t)) if isinstance(r, SymBool) else (not r)

    def __hash__(self):
        return hash(bytes(concretize(b) for b in self.items))

    def __contains__(self, x):
        if isinstance(x, (int, SymInt)):
            for b in self.items:
                if b == x:
                    return True
            return False
        x = _lift_bytes(x)
        n = len(x)
        for i in range(len(self.items) - n + 1):
            if SymBool.make(bytes_eq_term(self.items[i:i + n], x)):
                return True
        return False

    def __repr__(self):
        return "<symbytes %d>" % len(self.items)

    __str__ = __repr__

    def __format__(self, spec):
        return repr(self)

    def __bytes__(self):
        raise EngineGap("bytes(SymBytes) reached a C function")

    def __reversed__(self):
        return iter(self.items[::-1])

    def _strip(self, chars, left, right):
        if chars is None:
            chars = b" \t\n\r\x0b\x0c"
        chars = _lift_bytes(chars)
        items = self.items

        def inset(b):
            for c in chars:
                if b == c:
                    return True
            return False
        if right:
            while items and inset(items[-1]):
                items = items[:-1]
        if left:
            while items and inset(items[0]):
                items = items[1:]
        return mkbytes(items)

    def rstrip(self, chars=None):
        return self._strip(chars, False, True)

    def lstrip(self, chars=None):
        return self._strip(chars, True, False)

    def strip(self, chars=None):
        return self._strip(chars, True, True)

    def startswith(self, p):
        p = _lift_bytes(p)
        if len(p) > len(self.items):
            return False
        return SymBool.make(bytes_eq_term(self.items[:len(p)], p))

    def endswith(self, p):
        p = _lift_bytes(p)
        if len(p) > len(self.items):
            return False
        return SymBool.make(bytes_eq_term(self.items[len(self.items) - len(p):], p))

    def find(self, sub, start=0, end=None):
        sub = _lift_bytes(sub) if not isinstance(sub, (int, SymInt)) else (sub,)
        end = len(self.items) if end is None else end
        n = len(sub)
        for i in range(start, end - n + 1):
            if SymBool.make(bytes_eq_term(self.items[i:i + n], sub)):
                return i
        return -1

    def index(self, sub, *a):
        r = self.find(sub, *a)
        if r < 0:
            raise ValueError("subsection not found")
        return r

    def join(self, seq):
        out = []
        for i, x in enumerate(seq):
            if i:
                out.extend(self.items)
            out.extend(_lift_bytes(x))
        return mkbytes(out)

    def decode(self, encoding="utf-8", errors="strict"):
        from .strings import decode
        return decode(self, encoding, errors)

    def hex(self):
        raise EngineGap("SymBytes.hex")

    def tobytes(self):
        return self

    def split(self, sep=None, maxsplit=-1):
        raise EngineGap("SymBytes.split")

    def count(self, x):
        raise EngineGap("SymBytes.count")

    def translate(self, table):
        return mkbytes(table[b] for b in self.items)

    def __getattr__(self, name):
        """any other bytes method: fork over every feasible content (sound; loud when the bound is exceeded)"""
        if name.startswith("__") or not hasattr(bytes, name):
            raise AttributeError("'bytes' object has no attribute %r" % name)

        def call(*a, **k):
            conc = bytes(concretize(b) for b in self.items)
            a = tuple(bytes(concretize(b) for b in x.items) if isinstance(x, SymBytes) else concretize(x) for x in a)
            return getattr(conc, name)(*a, **k)
        return call

    def _case(self, lo, hi, delta):
        out = []
        for b in self.items:
            if isinstance(b, int):
                out.append(b + delta if lo <= b <= hi else b)
            else:
                w = b.w
                t = b.t
                out.append(SymInt.make(z3.If(z3.And(t >= lo, t <= hi), t + delta, t), w, 0, 255))
        return mkbytes(out)

    def lower(self):
        return self._case(65, 90, 32)

    def upper(self):
        return self._case(97, 122, -32)


def sym_index(items, i):
    """items[i] for symbolic i: if-then-else selection, IndexError side forked"""
    n = len(items)
    i = SymInt.lift(i)
    if not (i < n):
        raise IndexError("index out of range")
    if not (i >= -n):
        raise IndexError("index out of range")
    if i.lo < 0:
        if i < 0:
            i = i + n
    i = SymInt.lift(i)
    lo, hi = max(i.lo, 0), min(i.hi, n - 1)
    vals = [SymInt.lift(items[k]) for k in range(lo, hi + 1)]
    if any(v is None for v in vals):
        k = concretize(i)
        return items[k]
    w = max(v.w for v in vals)
    t = vals[-1].ext(w)
    for k in range(len(vals) - 2, -1, -1):
        t = z3.If(i.t == z3.BitVecVal(lo + k, i.w), vals[k].ext(w), t)
    return SymInt.make(t, w, min(v.lo for v in vals), max(v.hi for v in vals))


class ShByteArray:
    """mutable byte sequence (stand-in for bytearray)"""

    def __init__(self, x=0, *a):
        if isinstance(x, (SymInt, SymBool)):
            x = concretize(x)
        if isinstance(x, int):
            self.items = [0] * x
        elif isinstance(x, str):
            self.items = list(x.encode(*a))
        else:
            self.items = list(_lift_bytes(x) if _lift_bytes(x) is not None else x)

    def append(self, b):
        if isinstance(b, int) and not 0 <= b <= 255:
            raise ValueError("byte must be in range(0, 256)")
        if isinstance(b, SymInt) and (b.lo < 0 or b.hi > 255):
            if not (b >= 0) or not (b <= 255):
                raise ValueError("byte must be in range(0, 256)")
            b = byte_from_term(byte_term_wide(b))
        self.items.append(b)

    def extend(self, it):
        for b in (_lift_bytes(it) if _lift_bytes(it) is not None else it):
            self.append(b)

    def __setitem__(self, i, v):
        if isinstance(i, slice):
            self.items[i] = list(_lift_bytes(v) if _lift_bytes(v) is not None else v)
            return
        i = concretize(i)
        if isinstance(v, int) and not 0 <= v <= 255:
            raise ValueError("byte must be in range(0, 256)")
        if isinstance(v, SymInt) and (v.lo < 0 or v.hi > 255):
            if not (v >= 0) or not (v <= 255):
                raise ValueError("byte must be in range(0, 256)")
            v = byte_from_term(byte_term_wide(v))
        self.items[i] = v

    def __getitem__(self, i):
        if isinstance(i, slice):
            r = ShByteArray()
            r.items = self.items[i]
            return r
        if isinstance(i, (SymInt, SymBool)):
            return sym_index(self.items, i)
        return self.items[i]

    def __len__(self):
        return len(self.items)

    def __iter__(self):
        return iter(list(self.items))

    def __bool__(self):
        return bool(self.items)

    def __eq__(self, o):
        o = _lift_bytes(o)
        if o is None:
            return False
        return SymBool.make(bytes_eq_term(tuple(self.items), o))

    def __ne__(self, o):
        r = self.__eq__(o)
        return SymBool.make(z3.Not(r.t)) if isinstance(r, SymBool) else (not r)

    def __add__(self, o):
        r = ShByteArray()
        r.items = self.items + list(_lift_bytes(o))
        return r

    def __iadd__(self, o):
        self.extend(o)
        return self

    def __repr__(self):
        return "<shbytearray %d>" % len(self.items)

    __hash__ = None

    def clear(self):
        self.items.clear()

    def copy(self):
        r = ShByteArray()
        r.items = list(self.items)
        return r

    def pop(self, i=-1):
        return self.items.pop(concretize(i))

    def insert(self, i, b):
        self.items.insert(concretize(i), b)

    def reverse(self):
        self.items.reverse()

    def __delitem__(self, i):
        if isinstance(i, slice):
            del self.items[slice(concretize(i.start), concretize(i.stop), concretize(i.step))]
        else:
            del self.items[concretize(i)]

    def __contains__(self, x):
        return SymBytes(self.items).__contains__(x)

    def __mul__(self, n):
        r = ShByteArray()
        r.items = self.items * concretize(n)
        return r

    def __radd__(self, o):
        r = ShByteArray()
        r.items = list(_lift_bytes(o)) + self.items
        return r

    def __getattr__(self, name):
        # remaining bytes methods (find, startswith, rstrip, decode, ...) behave as on the immutable snapshot
        if name.startswith("__"):
            raise AttributeError(name)
        return getattr(SymBytes(self.items), name)
