"""symx.loader -- private copies of the package under test.

`load_instrumented(root)`  imports <root>/construct/*.py *as it is on disk now* with the AST
                           passes and shims of DESIGN 3.1 (nothing cached between runs).
`load_pristine(root)`      plain import of the same files (real io, real struct, no passes):
                           used only to replay counterexamples and witnesses.
Both copies live side by side; `activate(copy)` puts one of them into sys.modules (needed
because generated code does `from construct import *`).
"""
import sys
import os
import hashlib
import importlib.abc
import importlib.machinery
import importlib.util
import contextlib

from . import shims, tables

PKG = "construct"
TABLE_MODULES = ("construct.lib.binary", "construct.lib.py3compat", "construct.lib.hex", "construct.core")


class _Finder(importlib.abc.MetaPathFinder, importlib.abc.Loader):
    def __init__(self, root, instrument):
        self.root = root
        self.instrument = instrument

    def find_spec(self, name, path, target=None):
        if name != PKG and not name.startswith(PKG + "."):
            return None
        rel = name.replace(".", "/")
        for cand, ispkg in ((f"{self.root}/{rel}/__init__.py", True), (f"{self.root}/{rel}.py", False)):
            if os.path.exists(cand):
                spec = importlib.machinery.ModuleSpec(name, self, origin=cand, is_package=ispkg)
                if ispkg:
                    spec.submodule_search_locations = [os.path.dirname(cand)]
                return spec
        return None

    def create_module(self, spec):
        return None

    def exec_module(self, module):
        fn = module.__spec__.origin
        with open(fn, encoding="utf-8") as f:
            src = f.read()
        module.__file__ = fn
        if self.instrument:
            tree = shims.instrument_source(src, fn)
            module.__dict__.update(shims.HOOKS)
            code = compile(tree, fn, "exec")
        else:
            code = compile(src, fn, "exec")
        exec(code, module.__dict__)


class Copy:
    """one imported copy of the package"""

    def __init__(self, modules, instrumented, root):
        self.modules = modules
        self.instrumented = instrumented
        self.root = root
        self.construct = modules[PKG]

    def __getattr__(self, name):
        return getattr(self.modules[PKG], name)


def _purge():
    saved = {}
    for k in list(sys.modules):
        if k == PKG or k.startswith(PKG + "."):
            saved[k] = sys.modules.pop(k)
    return saved


def _import_all(root, instrument):
    old = _purge()
    finder = _Finder(root, instrument)
    sys.meta_path.insert(0, finder)
    import binascii as real_binascii
    real_io, real_struct = sys.modules["io"], sys.modules["struct"]
    if instrument:
        sys.modules["io"] = shims.ShIO()
        sys.modules["struct"] = shims.ShStructMod()
        sys.modules["binascii"] = shims.ShBinascii()
    try:
        importlib.import_module(PKG)
        for sub in ("core", "expr", "debug", "lib", "lib.binary", "lib.bitstream", "lib.containers", "lib.hex", "lib.py3compat"):
            try:
                importlib.import_module(PKG + "." + sub)
            except ModuleNotFoundError:
                pass
        mods = {k: v for k, v in sys.modules.items() if k == PKG or k.startswith(PKG + ".")}
    finally:
        sys.modules["io"], sys.modules["struct"] = real_io, real_struct
        sys.modules["binascii"] = real_binascii
        sys.meta_path.remove(finder)
        _purge()
        sys.modules.update(old)
    return mods


def load_pristine(root="/repo"):
    return Copy(_import_all(root, False), False, root)


def load_instrumented(root="/repo"):
    mods = _import_all(root, True)
    # builtins are planted after module execution so that class statements such as
    # `class HexDisplayedBytes(bytes)` derived from the real builtins
    for name, m in mods.items():
        m.__dict__.update(shims.INJECT)
        m.__dict__.update(shims.HOOKS)
    core = mods.get(PKG + ".core")
    if core is not None:
        core.__dict__.update(compile=shims.sh_compile, exec=shims.sh_exec)
    # constant lookup tables -> formulas
    wrapped = []
    for name, m in mods.items():
        for attr, val in list(m.__dict__.items()):
            w = tables.wrap_value(val)
            if w is not None:
                # the same table object may be star-imported into several modules
                for m2 in mods.values():
                    if m2.__dict__.get(attr) is val:
                        m2.__dict__[attr] = w
                wrapped.append("%s.%s" % (name, attr))
            elif isinstance(val, type) and getattr(val, "__module__", "").startswith(PKG):
                for cattr, cval in list(vars(val).items()):
                    w = tables.wrap_value(cval)
                    if w is not None:
                        setattr(val, cattr, w)
                        wrapped.append("%s.%s.%s" % (name, val.__name__, cattr))
    _wrap_value_subclasses(mods)
    from . import summaries
    summaries.install(mods)
    c = Copy(mods, True, root)
    c.wrapped_tables = sorted(set(wrapped))
    return c


def _wrap_value_subclasses(mods):
    """display wrappers of the package (class X(int), class Y(bytes): EnumInteger, HexDisplayedInteger,
    HexDisplayedBytes, ...) are transparent for proxies: X(proxy) is the proxy itself.  Their only
    purpose is __str__; equality and arithmetic are those of the wrapped value."""
    from .values import SymInt, SymBool, SymBytes, ShByteArray
    from .floats import SymFloat
    proxies = (SymInt, SymBool, SymBytes, ShByteArray, SymFloat)
    done = {}
    for m in list(mods.values()):
        for attr, K in list(m.__dict__.items()):
            if not (isinstance(K, type) and getattr(K, "__module__", "").startswith(PKG)):
                continue
            if not issubclass(K, (int, bytes)) or issubclass(K, bool):
                continue
            F = done.get(K)
            if F is None:
                def make(K):
                    class _M(type(K)):
                        def __instancecheck__(cls, obj):
                            return isinstance(obj, K)

                    class F(K, metaclass=_M):
                        def __new__(cls, *a, **k):
                            if a and isinstance(a[0], proxies):
                                return a[0]
                            return K(*a, **k)
                    F.__name__ = K.__name__
                    F.__qualname__ = K.__qualname__
                    for n, v in list(vars(K).items()):
                        if isinstance(v, staticmethod):
                            f = v.__func__

                            def wrap(f):
                                def g(*a, **k):
                                    if a and isinstance(a[0], proxies):
                                        return a[0]
                                    return f(*a, **k)
                                return staticmethod(g)
                            setattr(F, n, wrap(f))
                    return F
                F = done[K] = make(K)
            m.__dict__[attr] = F


@contextlib.contextmanager
def activate(copy):
    """make `import construct` resolve to this copy (and io/struct to the shims if instrumented)"""
    old = _purge()
    sys.modules.update(copy.modules)
    try:
        yield copy
    finally:
        _purge()
        sys.modules.update(old)


def source_digest(root="/repo"):
    h = hashlib.sha256()
    base = os.path.join(root, PKG)
    for dp, dn, fn in sorted(os.walk(base)):
        dn.sort()
        for f in sorted(fn):
            if f.endswith(".py"):
                p = os.path.join(dp, f)
                h.update(p.encode())
                with open(p, "rb") as fh:
                    h.update(fh.read())
    return h.hexdigest()


def wrap_instance_tables(obj, _seen=None):
    """walk a construct object graph and give instance dictionaries symbolic lookups"""
    if _seen is None:
        _seen = set()
    if id(obj) in _seen:
        return obj
    _seen.add(id(obj))
    d = getattr(obj, "__dict__", None)
    if not isinstance(d, dict):
        return obj
    for k, v in list(d.items()):
        if type(v) is dict and k in ("decmapping", "encmapping", "cases", "flags", "reverseflags", "ksymapping"):
            d[k] = tables.SymDict(v)
            v = d[k]
        if isinstance(v, dict):
            for x in list(dict.values(v)):
                if hasattr(x, "_parse"):
                    wrap_instance_tables(x, _seen)
        elif isinstance(v, (list, tuple)):
            for x in v:
                if hasattr(x, "_parse"):
                    wrap_instance_tables(x, _seen)
        elif hasattr(v, "_parse") and hasattr(v, "__dict__"):
            wrap_instance_tables(v, _seen)
    return obj


def load_extra(copy, relpath, name=None):
    """execute one more source file of the repository (gallery formats) against copy `copy`,
    with the same passes and shims as the package itself; returns the module namespace.
    The file's own imports of `construct` resolve to the copy."""
    import types
    fn = os.path.join(copy.root, relpath)
    with open(fn, encoding="utf-8") as f:
        src = f.read()
    modname = name or ("symx_extra_" + relpath.replace("/", "_").replace(".py", ""))
    m = types.ModuleType(modname)
    m.__file__ = fn
    with activate(copy):
        if copy.instrumented:
            tree = shims.instrument_source(src, fn)
            m.__dict__.update(shims.HOOKS_EXTRA)
            code = compile(tree, fn, "exec")
            real_io, real_struct = sys.modules["io"], sys.modules["struct"]
            sys.modules["io"] = shims.ShIO()
            sys.modules["struct"] = shims.ShStructMod()
            try:
                exec(code, m.__dict__)
            finally:
                sys.modules["io"], sys.modules["struct"] = real_io, real_struct
            m.__dict__.update(shims.INJECT)
            m.__dict__.update(shims.HOOKS_EXTRA)
            for attr, val in list(m.__dict__.items()):
                if isinstance(val, type) and getattr(val, "__module__", "") == modname:
                    for cattr, cval in list(vars(val).items()):
                        w = tables.wrap_value(cval)
                        if w is not None:
                            setattr(val, cattr, w)
        else:
            exec(compile(src, fn, "exec"), m.__dict__)
    return m
