"""symx -- symbolic execution of the real construct source over z3 (see /verif/DESIGN.md section 3)."""
