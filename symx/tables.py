"""symx.tables -- constant lookup tables of the code under test as formulas.

A lookup `TABLE[key]` with a symbolic key would otherwise hash (i.e. enumerate) the key.
Tables with small integer keys and integer / fixed-length bytes values are compiled, from the
live objects of the freshly imported module (so a mutated table is encoded as mutated), into
reduced decision diagrams per output bit: the lookup becomes a term, not a fork.
Other dictionaries (label tables of Enum/Mapping/Switch instances) get `SymDict`: the lookup
forks once per stored key (sound, N+1 paths).
"""
import z3
from .values import (SymInt, SymBool, SymBytes, ShByteArray, concretize, mkbytes, byte_term, byte_from_term,
                     EngineGap, eng, tobool, minwidth)

_isinstance = isinstance


def _keybits(key, nb):
    """list of 1-bit z3 bit-vectors, MSB first, for a key known to lie in 0 .. 2**nb-1"""
    k = SymInt.lift(key)
    w = max(k.w, nb + 1)
    t = k.ext(w)
    return [z3.Extract(i, i, t) for i in reversed(range(nb))]


_ONE = None


def _dd(vals, bits, memo):
    """Shannon expansion of a truth table `vals` (tuple of 0/1, len 2**len(bits)).
    Returns 0, 1 or a 1-bit z3 bit-vector term."""
    key = (vals, len(bits))
    r = memo.get(key)
    if r is not None:
        return r
    v0 = vals[0]
    if all(v == v0 for v in vals):
        r = v0
    else:
        h = len(vals) // 2
        lo, hi = vals[:h], vals[h:]
        if lo == hi:
            r = _dd(lo, bits[1:], memo)
        else:
            a, b = _dd(hi, bits[1:], memo), _dd(lo, bits[1:], memo)
            if isinstance(a, int) and isinstance(b, int) and a == 1 and b == 0:
                r = bits[0]
            elif isinstance(a, int) and isinstance(b, int) and a == 0 and b == 1:
                r = ~bits[0]
            else:
                a = z3.BitVecVal(a, 1) if isinstance(a, int) else a
                b = z3.BitVecVal(b, 1) if isinstance(b, int) else b
                r = z3.If(bits[0] == z3.BitVecVal(1, 1), a, b)
    memo[key] = r
    return r


def _assemble(outbits, lo=None, hi=None):
    """outbits: LSB first list of 0 | 1 | 1-bit term -> int or SymInt (non-negative)"""
    n = len(outbits)
    if all(isinstance(b, int) for b in outbits):
        return sum(b << i for i, b in enumerate(outbits))
    # strip constant-zero high bits
    top = n
    while top > 0 and isinstance(outbits[top - 1], int) and outbits[top - 1] == 0:
        top -= 1
    parts = [z3.BitVecVal(0, 1)]
    run = []
    for b in reversed(outbits[:top]):
        parts.append(z3.BitVecVal(b, 1) if isinstance(b, int) else b)
    t = z3.Concat(*parts) if len(parts) > 1 else parts[0]
    mx = (1 << top) - 1
    return SymInt.make(t, top + 1, 0 if lo is None else max(0, lo), mx if hi is None else min(mx, hi))


class _IntKeyed:
    """shared machinery for dense tables indexed 0..n-1"""

    def _prepare(self, values):
        n = len(values)
        nb = max(1, (n - 1).bit_length())
        self._n = n
        self._nb = nb
        v0 = values[0]
        if all(_isinstance(v, int) and not _isinstance(v, bool) and v >= 0 for v in values):
            self._kind = "int"
            self._vw = max(1, max(values).bit_length())
            ints = list(values)
        elif all(_isinstance(v, bytes) and len(v) == len(v0) for v in values) and len(v0) > 0:
            self._kind = "bytes"
            self._vlen = len(v0)
            self._vw = 8 * len(v0)
            ints = [int.from_bytes(v, "big") for v in values]
        elif all(_isinstance(v, str) and len(v) == len(v0) and all(ord(c) < 256 for c in v) for v in values) and len(v0) > 0:
            self._kind = "str"
            self._vlen = len(v0)
            self._vw = 8 * len(v0)
            ints = [int.from_bytes(v.encode("latin-1"), "big") for v in values]
        else:
            self._kind = None
            return
        pad = (1 << nb) - n
        self._cols = [tuple(((v >> i) & 1) for v in ints) + (0,) * pad for i in range(self._vw)]
        self._lo = min(ints)
        self._hi = max(ints)

    def _from_bits(self, bits):
        memo = {}
        outbits = [_dd(col, bits, memo) for col in self._cols]            # LSB first
        if self._kind == "int":
            return _assemble(outbits, self._lo, self._hi)
        out = []
        for j in range(self._vlen):
            base = 8 * (self._vlen - 1 - j)
            out.append(_assemble(outbits[base:base + 8]))
        if self._kind == "str":
            from .strings import mkstr
            return mkstr(out)
        return mkbytes(out)

    def _lookup(self, key):
        return self._from_bits(_keybits(key, self._nb))


class SymList(list, _IntKeyed):
    """list constant; `lst[symbolic index]` is a formula"""

    def __init__(self, items):
        list.__init__(self, items)
        self._ready = False

    def __getitem__(self, key):
        if not _isinstance(key, (SymInt, SymBool)):
            return list.__getitem__(self, key)
        if not self._ready:
            self._prepare(list(self))
            self._ready = True
        key = SymInt.lift(key)
        n = len(self)
        if not (key < n) or not (key >= -n):
            raise IndexError("list index out of range")
        if key.lo < 0 and key < 0:
            key = key + n
        if self._kind is None:
            return list.__getitem__(self, concretize(key))
        return self._lookup(key)


class SymTable(dict, _IntKeyed):
    """dict constant.  Dense int keys 0..n-1 -> formula; 0/1-bit-string keys -> formula;
    anything else -> fork per key"""

    def __init__(self, d):
        dict.__init__(self, d)
        self._mode = None

    def _analyse(self):
        keys = list(dict.keys(self))
        if keys and all(_isinstance(k, int) and not _isinstance(k, bool) for k in keys) and sorted(keys) == list(range(len(keys))):
            self._prepare([dict.__getitem__(self, k) for k in range(len(keys))])
            self._mode = "dense" if self._kind else "fork"
            return
        if keys and all(_isinstance(k, bytes) for k in keys):
            L = len(keys[0])
            if L <= 16 and all(len(k) == L and set(k) <= {0, 1} for k in keys) and len(keys) == 1 << L:
                order = sorted(keys)       # lexicographic == numeric order of the bit string
                self._prepare([dict.__getitem__(self, k) for k in order])
                if self._kind:
                    self._mode = "bits"
                    self._L = L
                    return
        self._mode = "fork"

    def _find(self, key):
        """returns (found, value)"""
        if self._mode is None:
            self._analyse()
        if self._mode == "dense":
            key = SymInt.lift(key) if _isinstance(key, (SymInt, SymBool)) else None
            if key is None:
                return False, None
            if not (key >= 0) or not (key < self._n):
                return False, None
            return True, self._lookup(key)
        if self._mode == "bits" and _isinstance(key, (SymBytes, ShByteArray)):
            items = list(key.items)
            if len(items) != self._L:
                return False, None
            bits = []
            for b in items:
                if _isinstance(b, int):
                    if b not in (0, 1):
                        return False, None
                    bits.append(z3.BitVecVal(b, 1))
                else:
                    if not (b <= 1):
                        return False, None
                    bits.append(z3.Extract(0, 0, b.t))
            return True, self._from_bits(bits)
        return fork_lookup(self, key)

    def __getitem__(self, key):
        if not _symkey(key):
            return dict.__getitem__(self, key)
        found, v = self._find(key)
        if not found:
            raise KeyError(key)
        return v

    def get(self, key, default=None):
        if not _symkey(key):
            return dict.get(self, key, default)
        found, v = self._find(key)
        return v if found else default

    def __contains__(self, key):
        if not _symkey(key):
            return dict.__contains__(self, key)
        found, _ = self._find(key)
        return found


def fork_lookup(d, key):
    """lookup with a symbolic key by forking once per stored key that could match"""
    for k in list(dict.keys(d)):
        try:
            c = (key == k)
        except Exception:
            c = False
        if c is NotImplemented:
            c = False
        if c:
            return True, dict.__getitem__(d, k)
    return False, None


def _symkey(key):
    from .strings import SymStr
    return _isinstance(key, (SymInt, SymBool, SymBytes, ShByteArray, SymStr))


class SymDict(dict):
    """instance dictionaries with symbolic lookups (Enum.decmapping, Switch.cases, ...)"""

    def __getitem__(self, key):
        if not _symkey(key):
            return dict.__getitem__(self, key)
        found, v = fork_lookup(self, key)
        if not found:
            raise KeyError(key)
        return v

    def get(self, key, default=None):
        if not _symkey(key):
            return dict.get(self, key, default)
        found, v = fork_lookup(self, key)
        return v if found else default

    def __contains__(self, key):
        if not _symkey(key):
            return dict.__contains__(self, key)
        found, _ = fork_lookup(self, key)
        return found


def wrap_value(v):
    """wrap a module/class level constant if it is a lookup table"""
    if type(v) is dict and v and all(isinstance(k, (int, bytes)) and not isinstance(k, bool) for k in v):
        vals = list(v.values())
        if all(type(x) is list for x in vals):
            return SymDict({k: SymList(x) for k, x in v.items()})
        return SymTable(v)
    if type(v) is list and len(v) >= 16 and all(isinstance(x, (int, bytes, str)) and not isinstance(x, bool) for x in v):
        return SymList(v)
    return None
