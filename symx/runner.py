"""symx.runner -- runs one property check: instances over a process pool, replay of every
counterexample on the pristine library, witness validation, evidence, known findings, exit code.

usage: python -m symx.runner <ID> [--tier quick|thorough] [--root /repo] [--jobs N]
                                  [--only substr] [--replay file] [--list]
exit:  0 held on everything explored (KNOWN-FINDING lines allowed)
       1 VIOLATION property=<id> replay=<path>   (reproduced on the unmodified library)
       3 harness error / too many inconclusive instances (never a VIOLATION line)
"""
import argparse
import hashlib
import re
import importlib
import json
import multiprocessing
import os
import signal
import sys
import time
import traceback

VERIF = os.path.dirname(os.path.dirname(os.path.abspath(__file__)))
INCONCLUSIVE_LIMIT = 0.05

_W = {}


def _worker_init(root, modname):
    from . import loader
    sys.setrecursionlimit(20000)
    _W["instr"] = loader.load_instrumented(root)
    _W["prist"] = loader.load_pristine(root)
    _W["mod"] = importlib.import_module(modname)
    _W["root"] = root


class _Timeout(BaseException):
    pass


def _alarm(signum, frame):
    from . import engine as E
    raise E.Inconclusive("hard per-instance time limit")


def _functions_profile(store, root):
    prefixes = tuple(os.path.join(root, d) for d in ("construct", "gallery", "deprecated_gallery"))

    def prof(frame, event, arg):
        if event == "call":
            co = frame.f_code
            fn = co.co_filename
            if fn.startswith(prefixes):
                store.add("%s:%s" % (os.path.relpath(fn, root), co.co_qualname if hasattr(co, "co_qualname") else co.co_name))
    return prof


def replay_concrete(mod, copy, params, values):
    """run the harness concretely on `copy`; returns dict(failed=[labels], observations, aborted)"""
    from . import api, loader, engine as E
    ctx = api.Conc(copy, values)
    out = dict(failed=[], observations=[], aborted=False, error=None)
    with loader.activate(copy):
        try:
            mod.harness(ctx, copy, params)
        except api.ConcreteViolation as v:
            out["failed"] = [v.label]
        except E.PathAbort:
            out["aborted"] = True
        except E.EngineSignal as e:
            out["error"] = "%s: %s" % (type(e).__name__, e)
        except api.ReplayMismatch as e:
            out["error"] = "ReplayMismatch: %s" % e
    out["observations"] = [(l, api.plain(v)) for l, v in ctx.observations]
    return out


def _run_instance(job):
    from . import api, loader, engine as E
    inst, tier, budget_s = job
    mod, instr, prist, root = _W["mod"], _W["instr"], _W["prist"], _W["root"]
    params = inst["params"]
    t0 = time.time()
    funcs = set()
    state = dict(first=True, witness=None)

    def fn():
        ctx = api.Sym(instr)
        if state["first"]:
            state["first"] = False
            sys.setprofile(_functions_profile(funcs, root))
            try:
                return mod.harness(ctx, instr, params)
            finally:
                sys.setprofile(None)
        return mod.harness(ctx, instr, params)

    want = inst.get("witness_tag")

    def on_path(eng, tag):
        if state["witness"] is None and tag is not None and (want is None or tag == want):
            try:
                m = eng._need_model()
            except E.EngineSignal:
                return
            state["witness"] = dict(values=eng.extract(m), tag=tag,
                                    observations=[(l, api.plain(api.model_value(m, v))) for l, v in eng.observations])

    from . import summaries
    summaries.STATE["enabled"] = bool(inst.get("summaries", getattr(mod, "SUMMARIES", True)))
    used0, lq0 = summaries.STATE["used"], summaries.STATE["lemma_queries"]
    signal.signal(signal.SIGALRM, _alarm)
    signal.alarm(int(budget_s * 1.5) + 5)
    try:
        with loader.activate(instr):
            res = E.explore(fn, max_paths=inst.get("max_paths", getattr(mod, "MAX_PATHS", 20000)),
                            query_timeout_ms=int(getattr(mod, "QUERY_TIMEOUT_MS", 20000)),
                            deadline=t0 + budget_s, on_path=on_path,
                            max_picks=inst.get("max_picks", getattr(mod, "MAX_PICKS", 300)))
    except E.EngineSignal as e:
        res = dict(status="inconclusive", reason="%s: %s" % (type(e).__name__, e), paths=0, aborted=0, queries=0,
                   solver_s=0.0, decisions=0, obligations=0, branches=0, classes={}, violation=None)
    except Exception as e:
        res = dict(status="error", reason="harness raised %s: %s\n%s" % (type(e).__name__, e, traceback.format_exc(limit=8)),
                   paths=0, aborted=0, queries=0, solver_s=0.0, decisions=0, obligations=0, branches=0, classes={}, violation=None)
    finally:
        signal.alarm(0)
        E.ENGINE = None
    out = dict(name=inst["name"], status=res["status"], reason=res.get("reason"), paths=res["paths"],
               aborted=res["aborted"], queries=res["queries"], solver_s=res["solver_s"], decisions=res["decisions"],
               obligations=res["obligations"], branches=res["branches"], classes=res["classes"], wall_s=0.0,
               functions=sorted(funcs), replays=0, witness=None, violation=None, params=params,
               summaries_used=summaries.STATE["used"] - used0, lemma_queries=summaries.STATE["lemma_queries"] - lq0,
               lemmas=sorted("%d%s" % (w, "s" if s else "u") for (w, s), ok in summaries.STATE["proven"].items() if ok),
               lemmas_failed=sorted("%d%s" % (w, "s" if s else "u") for (w, s) in summaries.STATE["failed"]))
    # vacuity: declared outcome classes must be reachable
    if res["status"] == "ok":
        missing = [c for c in inst.get("expect", []) if not res["classes"].get(c)]
        if missing:
            out["status"] = "vacuous"
            out["reason"] = "expected outcome classes not reached: %s (reached %s)" % (missing, res["classes"])
    if res["status"] == "violation":
        v = res["violation"]
        rep = replay_concrete(mod, prist, params, v["model"])
        out["replays"] += 1
        out["violation"] = dict(label=v["label"], model=v["model"], reproduced=bool(rep["failed"]),
                                replay_failed=rep["failed"], replay_error=rep["error"], replay_aborted=rep["aborted"])
        if not rep["failed"]:
            out["status"] = "mismatch"
            out["reason"] = "counterexample for %r did not reproduce on the pristine library (%s)" % (v["label"], rep)
    elif res["status"] == "ok" and state["witness"] is not None and getattr(mod, "VALIDATE_WITNESS", True):
        w = state["witness"]
        rep = replay_concrete(mod, prist, params, w["values"])
        out["replays"] += 1
        out["witness"] = dict(values=w["values"], tag=w["tag"])
        if rep["failed"]:
            # the real library fails an obligation on an input the symbolic run accepted
            out["status"] = "violation"
            out["violation"] = dict(label=rep["failed"][0], model=w["values"], reproduced=True, replay_failed=rep["failed"],
                                    via="witness replay (symbolic run disagreed with the real library)")
        elif rep["error"] or rep["aborted"]:
            out["status"] = "mismatch"
            out["reason"] = "witness replay failed: %s" % (rep,)
        else:
            a = [(l, repr(x)) for l, x in w["observations"]]
            b = [(l, repr(x)) for l, x in rep["observations"]]
            if a != b:
                out["status"] = "mismatch"
                out["reason"] = "witness observations differ: symbolic %s vs pristine %s" % (a[:6], b[:6])
    out["wall_s"] = time.time() - t0
    return out


# ---------------------------------------------------------------------------------------------
def load_known(prop):
    p = os.path.join(VERIF, "known_findings.json")
    if not os.path.exists(p):
        return []
    with open(p) as f:
        data = json.load(f)
    return [e for e in data.get("findings", []) if e.get("property") == prop and e.get("status") == "open"]


def match_known(known, name, label):
    for e in known:
        if e.get("label") != label:
            continue
        if e.get("instance") == name:
            return e
        if e.get("instance_regex") and re.fullmatch(e["instance_regex"], name):
            return e
    return None


def write_replay(prop, modname, r):
    d = os.path.join(VERIF, "replays", prop)
    os.makedirs(d, exist_ok=True)
    body = dict(property=prop, check_module=modname, instance=r["name"], params=r["params"],
                label=r["violation"]["label"], inputs=r["violation"]["model"],
                how="python -m symx.runner %s --replay <this file>" % prop)
    digest = hashlib.sha1(json.dumps(body, sort_keys=True, default=str).encode()).hexdigest()[:12]
    path = os.path.join(d, digest + ".json")
    with open(path, "w") as f:
        json.dump(body, f, indent=1, default=str)
    return path


def do_replay(path, root):
    from . import loader
    with open(path) as f:
        body = json.load(f)
    mod = importlib.import_module(body["check_module"])
    prist = loader.load_pristine(root)
    rep = replay_concrete(mod, prist, body["params"], body["inputs"])
    print(json.dumps(dict(instance=body["instance"], label=body["label"], failed=rep["failed"], error=rep["error"],
                          observations=[(l, repr(v)) for l, v in rep["observations"]]), indent=1, default=str))
    if rep["failed"]:
        print("REPRODUCED property=%s label=%s" % (body["property"], rep["failed"][0]))
        return 1
    print("NOT REPRODUCED")
    return 0


def main(argv=None):
    ap = argparse.ArgumentParser()
    ap.add_argument("prop")
    ap.add_argument("--tier", default=os.environ.get("VERIF_TIER", "quick"))
    ap.add_argument("--root", default="/repo")
    ap.add_argument("--jobs", type=int, default=int(os.environ.get("VERIF_JOBS", "0")) or min(16, os.cpu_count() or 4))
    ap.add_argument("--only", default=None)
    ap.add_argument("--exclude", default=None)
    ap.add_argument("--replay", default=None)
    ap.add_argument("--list", action="store_true")
    ap.add_argument("--no-evidence", action="store_true")
    ap.add_argument("-v", "--verbose", action="store_true")
    args = ap.parse_args(argv)
    prop = args.prop.upper()
    modname = "checks.%s" % prop.lower()
    sys.path.insert(0, VERIF)
    if args.replay:
        return do_replay(args.replay, args.root)
    seed = int(os.environ.get("VERIF_SEED", "0") or 0)
    t0 = time.time()
    mod = importlib.import_module(modname)
    insts = list(mod.instances(args.tier, seed))
    if args.only:
        insts = [i for i in insts if args.only in i["name"]]
    if args.exclude:
        insts = [i for i in insts if args.exclude not in i["name"]]
    if args.list:
        for i in insts:
            print(i["name"])
        print(len(insts), "instances")
        return 0
    names = [i["name"] for i in insts]
    assert len(set(names)) == len(names), "duplicate instance names: %s" % [n for n in names if names.count(n) > 1][:5]
    budget = float(getattr(mod, "INSTANCE_BUDGET_S", {}).get(args.tier, 60))
    jobs = [(i, args.tier, float(i.get("budget_s", budget))) for i in insts]
    ctx = multiprocessing.get_context("fork")
    results = []
    if args.jobs <= 1:
        _worker_init(args.root, modname)
        for j in jobs:
            results.append(_run_instance(j))
    else:
        import threading
        done_evt = threading.Event()
        lock = threading.Lock()

        def _cb(r):
            with lock:
                results.append(r)
                if args.verbose:
                    print("  %-70s %-12s paths=%d q=%d %.2fs %s" % (r["name"][:70], r["status"], r["paths"], r["queries"], r["wall_s"], (r["reason"] or "")[:200]), flush=True)
            done_evt.set()

        pool = ctx.Pool(args.jobs, initializer=_worker_init, initargs=(args.root, modname))
        try:
            for j in jobs:
                pool.apply_async(_run_instance, (j,), callback=_cb, error_callback=lambda e: done_evt.set())
            pool.close()
            # watchdog: a worker that dies (segfault, OOM kill) loses its task silently; never wait forever
            stall = max(b for _, _, b in jobs) * 1.5 + 60
            while True:
                with lock:
                    n = len(results)
                if n >= len(jobs):
                    break
                done_evt.clear()
                if not done_evt.wait(stall):
                    with lock:
                        if len(results) == n:
                            break
        finally:
            pool.terminate()
        got = set(r["name"] for r in results)
        for inst, _, _ in jobs:
            if inst["name"] not in got:
                results.append(dict(name=inst["name"], status="inconclusive", reason="no result from the worker process (crashed or stalled)", paths=0, aborted=0,
                                    queries=0, solver_s=0.0, decisions=0, obligations=0, branches=0, classes={}, wall_s=0.0, functions=[], replays=0,
                                    witness=None, violation=None, params=inst["params"]))
    results.sort(key=lambda r: names.index(r["name"]))
    known = load_known(prop)
    viol, knownhits, incon, errors = [], [], [], []
    for r in results:
        if r["status"] == "violation":
            k = match_known(known, r["name"], r["violation"]["label"])
            if k:
                knownhits.append((r, k))
            else:
                viol.append(r)
        elif r["status"] in ("inconclusive",):
            incon.append(r)
        elif r["status"] in ("mismatch", "error", "vacuous"):
            errors.append(r)
    wall = time.time() - t0
    code = 0
    for r, k in knownhits:
        print("KNOWN-FINDING: property=%s %s [%s] %s" % (prop, r["name"], r["violation"]["label"], k.get("note", "")))
    for r in viol:
        path = write_replay(prop, modname, r)
        print("VIOLATION property=%s replay=%s" % (prop, path))
        print("  instance=%s label=%s inputs=%s" % (r["name"], r["violation"]["label"], json.dumps(r["violation"]["model"], default=str)[:400]))
        code = 1
    for r in errors:
        print("HARNESS-ERROR property=%s instance=%s status=%s %s" % (prop, r["name"], r["status"], (r["reason"] or "")[:600]))
    for r in incon:
        print("INCONCLUSIVE property=%s instance=%s %s" % (prop, r["name"], (r["reason"] or "")[:300]))
    if code == 0 and (errors or (results and len(incon) > max(1, INCONCLUSIVE_LIMIT * len(results))) or not results):
        code = 3
    if not args.no_evidence and not args.only and not args.exclude:
        write_evidence(mod, prop, args.tier, seed, results, viol, knownhits, incon, errors, wall, args.root, len(insts))
    print("%s %s: %d instances, %d paths, %d queries, solver %.1fs, wall %.1fs; violations=%d known=%d inconclusive=%d errors=%d -> exit %d" % (
        prop, args.tier, len(results), sum(r["paths"] for r in results), sum(r["queries"] for r in results),
        sum(r["solver_s"] for r in results), wall, len(viol), len(knownhits), len(incon), len(errors), code))
    return code


def write_evidence(mod, prop, tier, seed, results, viol, knownhits, incon, errors, wall, root, n_inst):
    from . import loader
    funcs = set()
    for r in results:
        funcs.update(r["functions"])
    decided = [r for r in results if r["status"] in ("ok", "violation")]
    nontrivial = [r for r in decided if r["paths"] >= 2 or r["obligations"] >= 1]
    samples = []
    for r in results[:: max(1, len(results) // 8)][:8]:
        samples.append(dict(instance=r["name"], status=r["status"], paths=r["paths"], queries=r["queries"],
                            obligations=r["obligations"], outcome_classes=r["classes"],
                            witness_input=(r["witness"] or {}).get("values")))
    for r, k in knownhits[:3]:
        samples.append(dict(instance=r["name"], status="known-finding", label=r["violation"]["label"], counterexample=r["violation"]["model"]))
    level = getattr(mod, "LEVEL", "model_checking")
    cov = dict(
        states=max(1, sum(r["paths"] for r in results)),
        transitions=max(1, sum(r["decisions"] for r in results)),
        traces_validated_against_impl=sum(r["replays"] for r in results),
        samples=samples or [dict(note="no instances")],
        evaluations=max(1, sum(r["queries"] for r in results)),
        distinct_nontrivial=len(nontrivial),
        rule="one evaluation = one solver query; an instance (construct program x operation x shape) counts as "
             "non-trivial when its exploration had >= 2 feasible paths or discharged >= 1 symbolic obligation; "
             "instances are distinct by name",
        exhaustive=bool(getattr(mod, "EXHAUSTIVE", {}).get(tier, False)),
        instances=len(results),
        instances_decided=len(decided),
        paths=sum(r["paths"] for r in results),
        infeasible_or_assumed_away_paths=sum(r["aborted"] for r in results),
        queries_discharged=sum(r["queries"] for r in results),
        obligations_discharged=sum(r["obligations"] for r in results),
        solver_time_s=round(sum(r["solver_s"] for r in results), 3),
        cpu_time_s=round(sum(r["wall_s"] for r in results), 3),
        functions_encoded=sorted(funcs),
        summaries_used=sum(r.get("summaries_used", 0) for r in results),
        lemmas_discharged=sorted(set(x for r in results for x in r.get("lemmas", []))),
        lemmas_failed=sorted(set(x for r in results for x in r.get("lemmas_failed", []))),
        lemma_queries=sum(r.get("lemma_queries", 0) for r in results),
        bounds=getattr(mod, "BOUNDS", {}).get(tier, getattr(mod, "BOUNDS", {})),
        outside_the_claim=getattr(mod, "OUTSIDE", []),
        inconclusive=[dict(instance=r["name"], reason=r["reason"]) for r in incon],
        harness_errors=[dict(instance=r["name"], status=r["status"], reason=(r["reason"] or "")[:300]) for r in errors],
        known_findings_hit=[dict(instance=r["name"], label=r["violation"]["label"]) for r, k in knownhits],
        source_digest=loader.source_digest(root),
        engine="symx (z3 %s), fork-by-replay DFS; every path ends in solver queries PC and not(obligation)" % _z3v(),
    )
    if level == "translation_validation":
        cov["programs"] = max(1, len(results))
        cov["disagreements_checked"] = sum(r["obligations"] for r in results)
    ev = dict(property_id=prop, tier=tier, seed=seed, level=level, coverage=cov,
              assumptions=list(getattr(mod, "ASSUMPTIONS", [])) + COMMON_ASSUMPTIONS,
              wall_s=round(wall, 3), violations=len(viol))
    os.makedirs(os.path.join(VERIF, "evidence"), exist_ok=True)
    with open(os.path.join(VERIF, "evidence", prop + ".json"), "w") as f:
        json.dump(ev, f, indent=1, default=str)


def _z3v():
    try:
        import z3
        return z3.get_version_string()
    except Exception:
        return "?"


COMMON_ASSUMPTIONS = [
    "verdicts hold for every value of the declared symbolic inputs within the stated bounds, on /repo/construct as loaded in this run; nothing is claimed outside the bounds or outside the enumerated programs",
    "environment models (part of the claim): io.BytesIO -> symx.shims.ShBytesIO; struct -> bit-vector/IEEE model; int/bytes/bytearray/isinstance/type/range/bool -> symx.shims wrappers; constant tables -> decision diagrams built from the live module objects",
    "AST passes applied to the loaded copy: bytes literals -> CBytes, 'fmt' % args -> tolerant formatter (message text not under test), broad except handlers -> engine-signal/leak hook",
    "every counterexample is replayed on the uninstrumented library before it is reported; one witness per instance is replayed to cross-check the encoding against real execution",
    "z3 is trusted; CPython is trusted for the concrete parts of each path",
]

if __name__ == "__main__":
    sys.exit(main())
