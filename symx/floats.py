"""symx.floats -- IEEE-754 values as z3 floating-point terms (Float64), used by the struct model
and by int / int true division."""
import z3
from . import engine as E
from .values import SymInt, SymBool, SymFloatBase, concretize, EngineGap

RNE = None
F64 = None


def _init():
    global RNE, F64
    if RNE is None:
        RNE = z3.RNE()
        F64 = z3.Float64()


class SymFloat(SymFloatBase):
    """double-precision value; arithmetic is round-to-nearest-even like CPython's"""
    __slots__ = ("t",)

    def __init__(self, t):
        _init()
        self.t = t

    @staticmethod
    def lift(x):
        _init()
        if isinstance(x, SymFloat):
            return x
        if isinstance(x, float):
            return SymFloat(z3.FPVal(x, F64))
        if isinstance(x, bool):
            x = int(x)
        if isinstance(x, int):
            if abs(x) >= 1 << 53:
                raise EngineGap("int -> float conversion of a value beyond 2**53")
            return SymFloat(z3.FPVal(float(x), F64))
        if isinstance(x, SymBool):
            x = x._lift()
        if isinstance(x, SymInt):
            if x.lo <= -(1 << 53) or x.hi >= (1 << 53):
                raise EngineGap("symbolic int -> float conversion beyond 2**53")
            return SymFloat(z3.fpSignedToFP(RNE, x.t, F64))
        return None

    def _bin(self, o, f):
        o = SymFloat.lift(o)
        if o is None:
            return NotImplemented
        return SymFloat(f(self.t, o.t))

    def __add__(self, o): return self._bin(o, lambda a, b: z3.fpAdd(RNE, a, b))
    __radd__ = __add__
    def __sub__(self, o): return self._bin(o, lambda a, b: z3.fpSub(RNE, a, b))
    def __rsub__(self, o): return self._bin(o, lambda a, b: z3.fpSub(RNE, b, a))
    def __mul__(self, o): return self._bin(o, lambda a, b: z3.fpMul(RNE, a, b))
    __rmul__ = __mul__

    def __truediv__(self, o):
        o = SymFloat.lift(o)
        if o is None:
            return NotImplemented
        if SymBool.make(z3.fpIsZero(o.t)):
            raise ZeroDivisionError("float division by zero")
        return SymFloat(z3.fpDiv(RNE, self.t, o.t))

    def __rtruediv__(self, o):
        o = SymFloat.lift(o)
        if o is None:
            return NotImplemented
        return o.__truediv__(self)

    def __neg__(self): return SymFloat(z3.fpNeg(self.t))
    def __pos__(self): return self
    def __abs__(self): return SymFloat(z3.fpAbs(self.t))

    def _cmp(self, o, f):
        o = SymFloat.lift(o)
        if o is None:
            return NotImplemented
        return SymBool.make(f(self.t, o.t))

    def __lt__(self, o): return self._cmp(o, z3.fpLT)
    def __le__(self, o): return self._cmp(o, z3.fpLEQ)
    def __gt__(self, o): return self._cmp(o, z3.fpGT)
    def __ge__(self, o): return self._cmp(o, z3.fpGEQ)

    def __eq__(self, o):
        r = self._cmp(o, z3.fpEQ)
        return False if r is NotImplemented else r

    def __ne__(self, o):
        r = self._cmp(o, lambda a, b: z3.Not(z3.fpEQ(a, b)))
        return True if r is NotImplemented else r

    def __bool__(self):
        return not bool(SymBool.make(z3.fpIsZero(self.t)))

    def __hash__(self):
        raise EngineGap("hash(SymFloat)")

    def __repr__(self): return "<symfloat>"
    __str__ = __repr__
    def __format__(self, spec): return "<symfloat>"

    def __float__(self):
        raise EngineGap("float(SymFloat) reached a C function")

    def same_bits(self, o):
        """z3 Bool: identical value, NaN == NaN, +0 != -0 (structural FP equality)"""
        o = SymFloat.lift(o)
        return self.t == o.t


def int_truediv(a, b):
    """Python's int / int (correctly rounded quotient); exact model for |operands| < 2**53"""
    fa, fb = SymFloat.lift(a), SymFloat.lift(b)
    if fa is None or fb is None:
        return NotImplemented
    if isinstance(b, (SymInt, SymBool)):
        if not b:
            raise ZeroDivisionError("division by zero")
    elif b == 0:
        raise ZeroDivisionError("division by zero")
    return SymFloat(z3.fpDiv(RNE, fa.t, fb.t))
