"""symx.shims -- the environment models: builtins, io.BytesIO, struct.

Every shim behaves exactly like the real thing on concrete arguments (checked by the
conformance gate, DESIGN 5.3) and symbolically on proxies.
"""
import builtins
import io as _real_io
import re as _re
import struct as _real_struct
import sys
import types
import ast

import z3

from . import engine as E
from .values import (SymInt, SymBool, SymBytes, ShByteArray, SymFloatBase, concretize, mkbytes, tobool,
                     int_to_bytes, int_from_bytes, byte_term, byte_from_term, _lift_bytes, EngineGap, BoundExceeded)
from .floats import SymFloat
from . import floats as _floats

_isinstance = builtins.isinstance
_type = builtins.type
_range = builtins.range


# ---------------------------------------------------------------------------------------------
# class stand-ins
class _ShMeta(type):
    def __instancecheck__(cls, obj):
        return sh_isinstance(obj, cls)

    def __getattr__(cls, name):
        # unbound use of the real type's methods, e.g. str.__repr__(x), bytes.fromhex(...)
        return getattr(cls._real, name)

    def __subclasscheck__(cls, sub):
        return sub is cls or issubclass(sub, cls._real)

    def __eq__(cls, other):
        return other is cls or other is cls._real

    def __hash__(cls):
        return hash(cls._real)


class ShInt(metaclass=_ShMeta):
    _real = int
    __name__ = "int"

    def __new__(cls, *a, **k):
        if a and _isinstance(a[0], SymInt) and len(a) == 1 and not k:
            return a[0]
        if a and _isinstance(a[0], SymBool) and len(a) == 1 and not k:
            return a[0]._lift()
        if a and _isinstance(a[0], SymFloatBase):
            raise EngineGap("int(SymFloat)")
        from .strings import SymStr, str_to_int
        if a and _isinstance(a[0], SymStr):
            return str_to_int(*a, **k)
        return int(*a, **k)

    to_bytes = staticmethod(int_to_bytes)
    from_bytes = staticmethod(int_from_bytes)

    @staticmethod
    def bit_length(x):
        return concretize(x).bit_length()


class ShBool(metaclass=_ShMeta):
    _real = bool
    __name__ = "bool"

    def __new__(cls, x=False):
        if _isinstance(x, SymBool):
            return x
        if _isinstance(x, SymInt):
            return SymBool.make(x.t != 0)
        return bool(x)


class ShStr(metaclass=_ShMeta):
    _real = str
    __name__ = "str"

    def __new__(cls, *a, **k):
        if a and _isinstance(a[0], SymStr) and len(a) == 1:
            return a[0]
        if a and _isinstance(a[0], (SymBytes, ShByteArray)) and len(a) >= 2:
            return a[0].decode(*a[1:], **k)
        return str(*a, **k)

    join = staticmethod(lambda sep, seq: str_join(sep, seq))
    maketrans = staticmethod(str.maketrans)


class ShBytes(metaclass=_ShMeta):
    _real = bytes
    __name__ = "bytes"

    def __new__(cls, *a, **k):
        if not a:
            return bytes(**k)
        x = a[0]
        if _isinstance(x, SymBytes):
            return x
        if _isinstance(x, ShByteArray):
            return mkbytes(x.items)
        if _isinstance(x, (SymInt, SymBool)):
            return bytes(concretize(x))
        if _isinstance(x, (int, bytes, bytearray, str, memoryview)):
            return bytes(*a, **k)
        if hasattr(x, "__bytes__") and not hasattr(x, "__iter__"):
            return bytes(*a, **k)
        return mkbytes(list(x))

    @staticmethod
    def fromhex(s):
        return bytes.fromhex(s)

    @staticmethod
    def join(sep, seq):
        return CBytes(sep).join(seq)

    @staticmethod
    def maketrans(a, b):
        return bytes.maketrans(a, b)


class _ShBAMeta(type):
    def __instancecheck__(cls, obj):
        return _isinstance(obj, bytearray) or type.__instancecheck__(cls, obj)


from .strings import SymStr, sym_format, str_join

_SYMCLASS = {
    SymStr: (str,),
    SymInt: (int,),
    SymBool: (bool, int),
    SymBytes: (bytes,),
    ShByteArray: (bytearray,),
    SymFloat: (float,),
}
_SHIM2REAL = {}


def _norm(cls):
    if _isinstance(cls, tuple):
        return tuple(_norm(c) for c in cls)
    return _SHIM2REAL.get(cls, cls)


def _flat(cls):
    if _isinstance(cls, tuple):
        for c in cls:
            yield from _flat(c)
    else:
        yield cls


def sh_isinstance(obj, cls):
    t = _type(obj)
    kinds = _SYMCLASS.get(t)
    if kinds is None:
        if t is bytearray:
            pass
        cls = _norm(cls)
        return _isinstance(obj, cls)
    for c in _flat(_norm(cls)):
        if c is object or c in kinds or c is t:
            return True
    return False


def sh_type(x, *rest):
    if rest:
        return _type(x, *rest)
    t = _type(x)
    return _REAL2SHIM.get(t, t)


class _LazyRange:
    """range() with a symbolic bound: forks one element at a time (n+1 paths that share
    prefixes) instead of one fork per value of the bound"""

    def __init__(self, start, stop, step):
        self.start, self.stop, self.step = start, stop, step

    def __iter__(self):
        i = self.start
        step = self.step
        while True:
            c = (i < self.stop) if step > 0 else (i > self.stop)
            if not c:
                return
            yield i
            i = i + step

    def __len__(self):
        return len(_range(concretize(self.start), concretize(self.stop), self.step))

    def __reversed__(self):
        return reversed(_range(concretize(self.start), concretize(self.stop), self.step))

    def __getitem__(self, i):
        return _range(concretize(self.start), concretize(self.stop), self.step)[i]


def sh_range(*a):
    if not any(_isinstance(x, (SymInt, SymBool)) for x in a):
        return _range(*a)
    if len(a) == 1:
        start, stop, step = 0, a[0], 1
    elif len(a) == 2:
        start, stop, step = a[0], a[1], 1
    else:
        start, stop, step = a[0], a[1], concretize(a[2])
        if step == 0:
            raise ValueError("range() arg 3 must not be zero")
    if _isinstance(start, (SymInt, SymBool)):
        start = concretize(start)
    return _LazyRange(start, stop, step)


# ---------------------------------------------------------------------------------------------
class CBytes(bytes):
    """bytes literal of the code under test: a true bytes object whose join accepts proxies"""

    def join(self, it):
        items = list(it)
        if not any(_isinstance(x, (SymBytes, ShByteArray)) for x in items):
            return bytes.join(self, items)
        return SymBytes(self).join(items) if len(self) else mkbytes([b for x in items for b in _lift_bytes(x)])


def symx_fmt(fmt, args):
    """'fmt' % args that never forces a symbolic value to be enumerated: proxies print as <sym>.
    Message text is not under test anywhere (C18 checks `path`, a separate argument)."""
    tup = args if _isinstance(args, tuple) else (args,)
    if _isinstance(args, dict) or not any(_type(a) in _SYMCLASS for a in tup):
        return fmt % args
    if any(_isinstance(a, SymStr) for a in tup):
        return sym_format(fmt, args)
    specs = list(_re.finditer(r"%(?:\([^)]*\))?[-#0 +]*(?:\*|\d+)?(?:\.(?:\*|\d+))?[hlL]?([a-zA-Z%])", fmt))
    specs = [m for m in specs if m.group(1) != "%"]
    if len(specs) != len(tup):
        return fmt % tuple("<sym>" if _type(a) in _SYMCLASS else a for a in tup)
    out = fmt
    for m, a in zip(reversed(specs), reversed(tup)):
        if _type(a) in _SYMCLASS:
            out = out[:m.start()] + "%s" + out[m.end():]
    tup = tuple("<sym>" if _type(a) in _SYMCLASS else a for a in tup)
    return out % tup


def symx_fmt_precise(fmt, args):
    """variant planted into gallery modules: integers are rendered digit by digit (adapters there
    convert numbers to text and back, so the text is data, not a message)"""
    tup = args if _isinstance(args, tuple) else (args,)
    if _isinstance(args, dict) or not any(_type(a) in _SYMCLASS for a in tup):
        return fmt % args
    return sym_format(fmt, args, precise=True)


def symx_mod_precise(l, r):
    if _isinstance(l, str) and not _isinstance(r, dict):
        tup = r if _isinstance(r, tuple) else (r,)
        if any(_type(a) in _SYMCLASS for a in tup):
            return sym_format(l, r, precise=True)
    return symx_mod(l, r)


def symx_format(lit, *args, **kwargs):
    return lit.format(*args, **kwargs)


def symx_format_precise(lit, *args, **kwargs):
    if not any(_type(a) in _SYMCLASS for a in list(args) + list(kwargs.values())):
        return lit.format(*args, **kwargs)
    from .strings import sym_strformat
    return sym_strformat(lit, args, kwargs)


def symx_in(a, b):
    """`a in b`: substring test of a symbolic byte / text value in a concrete bytes / str collection is a formula; everything else is Python's own `in`"""
    if _type(b) in (bytes, bytearray) and _isinstance(a, (SymBytes, ShByteArray)):
        items, k = list(a), len(a)
        if k == 0:
            return True
        alts = []
        for i in range(len(b) - k + 1):
            alts.append(z3.And(*[byte_term(items[j]) == b[i + j] for j in range(k)]))
        return SymBool.make(z3.Or(*alts)) if alts else False
    if _type(b) is str and _isinstance(a, SymStr):
        items, k = list(a.items), len(a)
        if k == 0:
            return True
        alts = []
        for i in range(len(b) - k + 1):
            conj = []
            for j in range(k):
                c = items[j]
                conj.append((c == ord(b[i + j])) if not _isinstance(c, SymInt) else tobool(c == ord(b[i + j])))
            alts.append(z3.And(*[x if not _isinstance(x, bool) else z3.BoolVal(x) for x in conj]))
        return SymBool.make(z3.Or(*alts)) if alts else False
    return a in b


def symx_mod(l, r):
    """every `%` whose left operand is not a literal: text formatting with symbolic arguments is modelled"""
    if _isinstance(l, str) and not _isinstance(r, dict):
        tup = r if _isinstance(r, tuple) else (r,)
        if any(_isinstance(a, SymStr) for a in tup):
            return sym_format(l, r)
        if any(_type(a) in _SYMCLASS for a in tup):
            return symx_fmt(l, r)
    return l % r


def symx_sjoin(sep, seq):
    seq = list(seq)
    if _isinstance(sep, str) and not any(_isinstance(x, SymStr) for x in seq):
        return sep.join(seq)
    return str_join(sep, seq)


_PROXY_NAMES = ("SymInt", "SymBytes", "SymBool", "ShByteArray", "SymFloat", "SymStr", "_LazyRange")



def symx_exc(e):
    """first statement of every broad exception handler in the code under test: a proxy that
    leaked into a C function shows up as TypeError/AttributeError naming the proxy class; that
    is an engine gap, never a verdict"""
    if _isinstance(e, (TypeError, AttributeError)):
        s = str(e)
        if any(n in s for n in _PROXY_NAMES):
            if _legit_operand_error(s):
                return
            raise EngineGap("proxy leaked into C code: %s" % s)


_REPR = {"SymStr": "a", "SymInt": 1, "SymBool": True, "SymBytes": b"a", "ShByteArray": bytearray(b"a"), "SymFloat": 1.5, "int": 1, "bool": True,
         "bytes": b"a", "float": 1.5, "str": "a", "NoneType": None, "list": [1], "tuple": (1,), "dict": {}, "bytearray": bytearray(b"a")}
_BINOPS = {"+": "__add__", "-": "__sub__", "*": "__mul__", "/": "__truediv__", "//": "__floordiv__", "%": "__mod__",
           "**": "__pow__", "** or pow()": "__pow__", "^": "__xor__", "&": "__and__", "|": "__or__", "<<": "__lshift__", ">>": "__rshift__",
           "@": "__matmul__"}


def _legit_operand_error(msg):
    """TypeError 'unsupported operand type(s) for OP: X and Y' / "'<' not supported between ..." that the
    real types would raise as well is ordinary Python behaviour, not a leak"""
    import operator as _op
    m = _re.match(r"unsupported operand type\(s\) for (.+): '(\w+)' and '(\w+)'", msg)
    if m:
        opn, a, b = m.groups()
        if a in _REPR and b in _REPR and opn in _BINOPS:
            try:
                x, y = _REPR[a], _REPR[b]
                f = {"+": _op.add, "-": _op.sub, "*": _op.mul, "/": _op.truediv, "//": _op.floordiv, "%": _op.mod,
                     "**": _op.pow, "** or pow()": _op.pow, "^": _op.xor, "&": _op.and_, "|": _op.or_, "<<": _op.lshift, ">>": _op.rshift,
                     "@": _op.matmul}[opn]
                f(x, y)
            except TypeError:
                return True
            except Exception:
                return False
        return False
    m = _re.match(r"'(\S+)' not supported between instances of '(\w+)' and '(\w+)'", msg)
    if m:
        opn, a, b = m.groups()
        if a in _REPR and b in _REPR:
            try:
                f = {"<": _op.lt, "<=": _op.le, ">": _op.gt, ">=": _op.ge}[opn]
                f(_REPR[a], _REPR[b])
            except TypeError:
                return True
            except Exception:
                return False
        return False
    m = _re.match(r"'(\w+)' object is not (iterable|subscriptable|callable|an iterator)$", msg) or \
        _re.match(r"object of type '(\w+)' has no (len)\(\)$", msg) or \
        _re.match(r"'(\w+)' object does not support (item assignment|item deletion)$", msg)
    if m:
        a, what = m.groups()
        if a in _REPR:
            x = _REPR[a]
            try:
                if what == "iterable":
                    iter(x)
                elif what == "subscriptable":
                    x[0]
                elif what == "callable":
                    return not callable(x)
                elif what == "len":
                    len(x)
                elif what == "item assignment":
                    x[0] = 0
                else:
                    return False
            except TypeError:
                return True
            except Exception:
                return False
        return False
    m = _re.match(r"'(\w+)' object has no attribute '(\w+)'", msg)
    if m:
        a, attr = m.groups()
        if a in _REPR:
            return not hasattr(_REPR[a], attr)
        return False
    m = _re.match(r"bad operand type for unary (\S+): '(\w+)'", msg)
    if m:
        opn, a = m.groups()
        if a in _REPR:
            try:
                {"-": _op.neg, "+": _op.pos, "~": _op.invert}[opn](_REPR[a])
            except TypeError:
                return True
            except Exception:
                return False
    return False


# ---------------------------------------------------------------------------------------------
class _ShBytesIOMeta(type):
    def __instancecheck__(cls, obj):
        if getattr(obj, "_is_file", False) and cls is ShBytesIO:
            return False              # an opened file is a BufferedReader / BufferedRandom, not an io.BytesIO
        return type.__instancecheck__(cls, obj) or (cls is ShBytesIO and _isinstance(obj, _real_io.BytesIO))


class ShBytesIO(metaclass=_ShBytesIOMeta):
    """pure-Python model of io.BytesIO over byte items (int | SymInt)"""

    def __init__(self, initial=b""):
        items = _lift_bytes(initial)
        if items is None:
            raise TypeError("a bytes-like object is required, not '%s'" % type(initial).__name__)
        self._buf = list(items)
        self._pos = 0
        self._closed = False

    def _chk(self):
        if self._closed:
            raise ValueError("I/O operation on closed file.")

    def read(self, n=-1):
        self._chk()
        if n is None:
            n = -1
        if _isinstance(n, (SymInt, SymBool)):
            n = SymInt.lift(n)
            remaining = max(0, len(self._buf) - self._pos)
            if n > sys.maxsize:
                raise OverflowError("cannot fit 'int' into an index-sized integer")
            if n < 0:
                n = -1
            elif n > remaining:
                n = remaining + 1
            else:
                n = concretize(n)
        if n > sys.maxsize or n < -sys.maxsize - 1:
            raise OverflowError("cannot fit 'int' into an index-sized integer")
        if n < 0:
            end = len(self._buf)
        else:
            end = min(len(self._buf), self._pos + n)
        out = self._buf[self._pos:end]
        self._pos = max(self._pos, end)
        return mkbytes(out)

    read1 = read

    def _concrete(self, what):
        if not all(_isinstance(b, int) for b in self._buf):
            raise EngineGap("%s on a stream with symbolic contents" % what)
        return bytes(self._buf)

    def readline(self, size=-1):
        buf = self._concrete("readline")
        i = buf.find(b"\n", self._pos)
        end = len(buf) if i < 0 else i + 1
        if size is not None and size >= 0:
            end = min(end, self._pos + size)
        out = buf[self._pos:end]
        self._pos = max(self._pos, end)
        return out

    def readinto(self, b):
        data = self.read(len(b))
        if _isinstance(data, SymBytes):
            raise EngineGap("readinto with symbolic contents")
        b[:len(data)] = data
        return len(data)

    def write(self, data):
        self._chk()
        if _isinstance(data, str):
            raise TypeError("a bytes-like object is required, not 'str'")
        items = _lift_bytes(data)
        if items is None:
            raise TypeError("a bytes-like object is required, not '%s'" % type(data).__name__)
        if not items:
            return 0
        if self._pos > len(self._buf):
            self._buf.extend([0] * (self._pos - len(self._buf)))
        self._buf[self._pos:self._pos + len(items)] = items
        self._pos += len(items)
        return len(items)

    def tell(self):
        self._chk()
        return self._pos

    def seek(self, off, whence=0):
        self._chk()
        if _isinstance(off, SymInt):
            if off > sys.maxsize or off < -sys.maxsize - 1:
                raise OverflowError("cannot fit 'int' into an index-sized integer")
            if whence == 0 and off > len(self._buf) + 64:
                # any position far beyond the end behaves alike: pick one representative
                off = len(self._buf) + 65
        off = concretize(off)
        whence = concretize(whence)
        if _isinstance(off, int) and (off > sys.maxsize or off < -sys.maxsize - 1):
            raise OverflowError("cannot fit 'int' into an index-sized integer")
        if not _isinstance(off, int):
            raise TypeError("'%s' object cannot be interpreted as an integer" % type(off).__name__)
        if whence == 0:
            if off < 0:
                raise ValueError("negative seek value %d" % off)
            self._pos = off
        elif whence == 1:
            self._pos = max(0, self._pos + off)
        elif whence == 2:
            self._pos = max(0, len(self._buf) + off)
        else:
            raise ValueError("invalid whence (%d, should be 0, 1 or 2)" % whence)
        return self._pos

    def getvalue(self):
        self._chk()
        return mkbytes(self._buf)

    def getbuffer(self):
        return _BufView(self)

    def truncate(self, size=None):
        self._chk()
        size = self._pos if size is None else concretize(size)
        if size < 0:
            raise ValueError("negative size value %d" % size)
        del self._buf[size:]
        return size

    def close(self):
        self._closed = True

    @property
    def closed(self):
        return self._closed

    def seekable(self):
        self._chk()
        return True

    def readable(self):
        self._chk()
        return True

    def writable(self):
        self._chk()
        return True

    def flush(self):
        self._chk()

    def isatty(self):
        return False

    def __enter__(self):
        self._chk()
        return self

    def __exit__(self, *a):
        self.close()

    def __iter__(self):
        raise EngineGap("iteration over ShBytesIO lines")


class _BufView:
    """model of the memoryview returned by BytesIO.getbuffer()"""

    def __init__(self, owner):
        self._o = owner

    def __enter__(self):
        return self

    def __exit__(self, *a):
        return False

    def release(self):
        pass

    def __len__(self):
        return len(self._o._buf)

    def __getitem__(self, i):
        if _isinstance(i, slice):
            i = slice(concretize(i.start), concretize(i.stop), concretize(i.step))
            return mkbytes(self._o._buf[i])
        return self._o._buf[concretize(i)]

    def __iter__(self):
        return iter(list(self._o._buf))

    def tobytes(self):
        return mkbytes(self._o._buf)

    def __bytes__(self):
        return bytes(self._o._concrete("bytes(getbuffer())"))


class ShIO(types.ModuleType):
    def __init__(self):
        super().__init__("io")
        self.BytesIO = ShBytesIO

    def __getattr__(self, name):
        return getattr(_real_io, name)


# ---------------------------------------------------------------------------------------------
_INTFMT = "bhilqBHILQ"
_FPSORT = {"e": (5, 11), "f": (8, 24), "d": (11, 53)}


def _order(e):
    return "big" if e in ">!" else ("little" if e == "<" else sys.byteorder)


def _split(fmt):
    if _isinstance(fmt, bytes):
        fmt = fmt.decode()
    if len(fmt) == 2 and fmt[0] in "<>=!@" and fmt[1] in _INTFMT + "efd?":
        return fmt[0], fmt[1]
    if len(fmt) == 1 and fmt in _INTFMT + "efd?":
        return "@", fmt
    return None


def _sym(x):
    return _type(x) in _SYMCLASS


class ShStructMod(types.ModuleType):
    error = _real_struct.error
    calcsize = staticmethod(_real_struct.calcsize)

    def __init__(self):
        super().__init__("struct")

    def __getattr__(self, name):
        return getattr(_real_struct, name)

    @staticmethod
    def pack(fmt, *vals):
        if not any(_sym(v) for v in vals):
            return _real_struct.pack(fmt, *vals)
        sp = _split(fmt)
        if sp is None or len(vals) != 1:
            raise EngineGap("struct.pack format %r with symbolic argument" % (fmt,))
        e, f = sp
        v = vals[0]
        n = _real_struct.calcsize(fmt)
        if f in _INTFMT:
            if not _isinstance(v, (SymInt, SymBool)):
                raise _real_struct.error("required argument is not an integer")
            signed = f.islower()
            lo, hi = (-(1 << (8 * n - 1)), (1 << (8 * n - 1)) - 1) if signed else (0, (1 << (8 * n)) - 1)
            v = SymInt.lift(v)
            if not (v >= lo) or not (v <= hi):
                raise _real_struct.error("argument out of range")
            return int_to_bytes(v, n, _order(e), signed=signed)
        if f == "?":
            b = tobool(v)
            return mkbytes([SymBool.make(b)._lift() if not _isinstance(b, bool) else int(b)])
        # float formats
        if _isinstance(v, SymBytes):
            raise _real_struct.error("required argument is not a float")
        x = SymFloat.lift(v)
        if x is None:
            raise _real_struct.error("required argument is not a float")
        eb, sb = _FPSORT[f]
        if f == "d":
            y = x.t
        else:
            srt = z3.FPSort(eb, sb)
            y = z3.fpToFP(_floats.RNE, x.t, srt)
            if SymBool.make(z3.And(z3.fpIsInf(y), z3.Not(z3.fpIsInf(x.t)))):
                raise OverflowError("float too large to pack with %s format" % f)
        bits = z3.fpToIEEEBV(y)
        items = [byte_from_term(z3.Extract(8 * i + 7, 8 * i, bits)) for i in reversed(range(n))]
        if _order(e) == "little":
            items.reverse()
        return mkbytes(items)

    @staticmethod
    def unpack(fmt, data):
        if not _isinstance(data, (SymBytes, ShByteArray)):
            return _real_struct.unpack(fmt, data)
        sp = _split(fmt)
        if sp is None:
            raise EngineGap("struct.unpack format %r with symbolic data" % (fmt,))
        e, f = sp
        n = _real_struct.calcsize(fmt)
        if len(data) != n:
            raise _real_struct.error("unpack requires a buffer of %d bytes" % n)
        if f in _INTFMT:
            return (int_from_bytes(data, _order(e), signed=f.islower()),)
        if f == "?":
            return (data[0] != 0,)
        items = list(_lift_bytes(data))
        if _order(e) == "little":
            items.reverse()
        parts = [byte_term(b) for b in items]
        bits = z3.Concat(*parts) if len(parts) > 1 else parts[0]
        eb, sb = _FPSORT[f]
        _floats._init()
        y = z3.fpBVToFP(bits, z3.FPSort(eb, sb))
        if f != "d":
            y = z3.fpToFP(_floats.RNE, y, _floats.F64)
        return (SymFloat(y),)

    @staticmethod
    def pack_into(*a, **k):
        raise EngineGap("struct.pack_into")

    @staticmethod
    def unpack_from(fmt, data, offset=0):
        n = _real_struct.calcsize(fmt)
        return ShStructMod.unpack(fmt, data[offset:offset + n])


class ShStructObj:
    def __init__(self, fmt):
        self.format = fmt
        self.size = _real_struct.calcsize(fmt)

    def pack(self, *v):
        return ShStructMod.pack(self.format, *v)

    def unpack(self, data):
        return ShStructMod.unpack(self.format, data)


ShStructMod.Struct = ShStructObj

import binascii as _real_binascii


class ShBinascii(types.ModuleType):
    """binascii: only used for messages and display strings in the code under test"""

    def __init__(self):
        super().__init__("binascii")

    def __getattr__(self, name):
        return getattr(_real_binascii, name)

    @staticmethod
    def hexlify(data, *a):
        if _isinstance(data, (SymBytes, ShByteArray)):
            return b"<sym>"
        if _isinstance(data, SymStr):
            raise TypeError("a bytes-like object is required, not 'str'")          # what the real function says for text
        return _real_binascii.hexlify(data, *a)

    @staticmethod
    def unhexlify(data):
        if _isinstance(data, (SymBytes, ShByteArray)):
            raise EngineGap("unhexlify of symbolic data")
        return _real_binascii.unhexlify(data)


for _shim in (ShInt, ShBool, ShBytes, ShStr):
    for _dn in ("__repr__", "__str__", "__hash__", "__eq__", "__ne__", "__lt__", "__le__", "__gt__", "__ge__", "__len__", "__add__", "__mul__", "__mod__",
                "__contains__", "__getitem__", "__iter__", "__format__", "__bool__", "__index__", "__int__", "__and__", "__or__", "__xor__", "__sub__", "__neg__"):
        if hasattr(_shim._real, _dn) and _dn not in vars(_shim):
            setattr(_shim, _dn, staticmethod(getattr(_shim._real, _dn)))
_SHIM2REAL.update({ShInt: int, ShBool: bool, ShBytes: bytes, ShByteArray: bytearray, ShStr: str})
_REAL2SHIM = {int: ShInt, bool: ShBool, bytes: ShBytes, bytearray: ShByteArray, str: ShStr,
              SymInt: ShInt, SymBool: ShBool, SymBytes: ShBytes, SymFloat: float, SymStr: ShStr}


# ShByteArray must also answer isinstance() for real bytearrays (the name `bytearray` in the code
# under test is bound to it); give it the metaclass behaviour without changing its definition.
class _BAProxy(ShByteArray, metaclass=_ShBAMeta):
    _real = bytearray
    __name__ = "bytearray"


_SYMCLASS[_BAProxy] = (bytearray,)
_SHIM2REAL[_BAProxy] = bytearray
_REAL2SHIM[bytearray] = _BAProxy
_REAL2SHIM[_BAProxy] = _BAProxy
_REAL2SHIM[ShByteArray] = _BAProxy

# ---- a one-directory in-memory file system for parse_file / build_file (binary modes only); contents may be symbolic
FILES = {}


class _ShFile(ShBytesIO):
    _is_file = True

    def __init__(self, name, mode):
        if "r" in mode and "+" not in mode and name not in FILES:
            raise FileNotFoundError(2, "No such file or directory", name)
        super().__init__(b"" if "w" in mode else FILES.get(name, b""))
        self._name, self._mode = name, mode
        if "w" in mode:
            FILES[name] = b""

    def _readable(self):
        return "r" in self._mode or "+" in self._mode

    def _writable(self):
        return "w" in self._mode or "+" in self._mode or "a" in self._mode

    def read(self, *a):
        if not self._readable():
            import io as _rio
            raise _rio.UnsupportedOperation("read")
        return super().read(*a)

    def write(self, data):
        if not self._writable():
            import io as _rio
            raise _rio.UnsupportedOperation("write")
        return super().write(data)

    def close(self):
        if self._writable():
            FILES[self._name] = self.getvalue()
        super().close()

    def __enter__(self):
        return self

    def __exit__(self, *a):
        self.close()
        return False


def sh_open(name, mode="r", *a, **k):
    if _isinstance(name, str) and name.startswith("symx://") and "b" in mode:
        return _ShFile(name, mode)
    return open(name, mode, *a, **k)


INJECT = dict(isinstance=sh_isinstance, int=ShInt, bool=ShBool, bytes=ShBytes, bytearray=_BAProxy, str=ShStr,
              type=sh_type, range=sh_range, open=sh_open)
HOOKS = dict(__symx_in__=symx_in, __symx_b__=CBytes, __symx_fmt__=symx_fmt, __symx_exc__=symx_exc, __symx_mod__=symx_mod, __symx_sjoin__=symx_sjoin,
             __symx_format__=symx_format)
HOOKS_EXTRA = dict(HOOKS, __symx_fmt__=symx_fmt_precise, __symx_mod__=symx_mod_precise, __symx_format__=symx_format_precise)


# ---------------------------------------------------------------------------------------------
# AST passes (DESIGN 3.1 step 2)
class Instrument(ast.NodeTransformer):
    def visit_Constant(self, node):
        if type(node.value) is bytes:
            return ast.copy_location(ast.Call(func=ast.Name(id="__symx_b__", ctx=ast.Load()), args=[node], keywords=[]), node)
        return node

    def visit_BinOp(self, node):
        self.generic_visit(node)
        if isinstance(node.op, ast.Mod) and isinstance(node.left, ast.Constant) and isinstance(node.left.value, str):
            return ast.copy_location(ast.Call(func=ast.Name(id="__symx_fmt__", ctx=ast.Load()), args=[node.left, node.right], keywords=[]), node)
        if isinstance(node.op, ast.Mod) and not (isinstance(node.left, ast.Constant) and isinstance(node.left.value, (int, float))):
            return ast.copy_location(ast.Call(func=ast.Name(id="__symx_mod__", ctx=ast.Load()), args=[node.left, node.right], keywords=[]), node)
        return node

    def visit_Call(self, node):
        self.generic_visit(node)
        f = node.func
        if (isinstance(f, ast.Attribute) and f.attr == "join" and isinstance(f.value, ast.Constant) and isinstance(f.value.value, str)
                and len(node.args) == 1 and not node.keywords):
            return ast.copy_location(ast.Call(func=ast.Name(id="__symx_sjoin__", ctx=ast.Load()), args=[f.value, node.args[0]], keywords=[]), node)
        if isinstance(f, ast.Attribute) and f.attr == "format" and isinstance(f.value, ast.Constant) and isinstance(f.value.value, str):
            return ast.copy_location(ast.Call(func=ast.Name(id="__symx_format__", ctx=ast.Load()), args=[f.value] + node.args, keywords=node.keywords), node)
        return node

    def visit_Compare(self, node):
        self.generic_visit(node)
        if len(node.ops) == 1 and isinstance(node.ops[0], (ast.In, ast.NotIn)):
            call = ast.Call(func=ast.Name(id="__symx_in__", ctx=ast.Load()), args=[node.left, node.comparators[0]], keywords=[])
            if isinstance(node.ops[0], ast.NotIn):
                call = ast.UnaryOp(op=ast.Not(), operand=call)
            return ast.copy_location(call, node)
        return node

    def visit_ExceptHandler(self, node):
        self.generic_visit(node)
        broad = node.type is None or (isinstance(node.type, ast.Name) and node.type.id in ("Exception", "BaseException"))
        names = []
        if isinstance(node.type, ast.Tuple):
            names = [e.id for e in node.type.elts if isinstance(e, ast.Name)]
        elif isinstance(node.type, ast.Name):
            names = [node.type.id]
        if broad or "TypeError" in names or "AttributeError" in names:
            name = node.name or "__symx_e__"
            node.name = name
            if node.type is None:
                node.type = ast.Name(id="Exception", ctx=ast.Load())
            hook = ast.Expr(ast.Call(func=ast.Name(id="__symx_exc__", ctx=ast.Load()),
                                     args=[ast.Name(id=name, ctx=ast.Load())], keywords=[]))
            ast.copy_location(hook, node)
            node.body = [hook] + node.body
        return node

    def visit_Match(self, node):
        return self.generic_visit(node)


def instrument_source(src, filename):
    tree = ast.parse(src, filename)
    tree = Instrument().visit(tree)
    ast.fix_missing_locations(tree)
    return tree


_real_compile, _real_exec = builtins.compile, builtins.exec


def sh_compile(source, filename, mode, *a, **k):
    if _isinstance(source, str) and mode == "exec":
        return _real_compile(instrument_source(source, filename or "<generated>"), filename or "<generated>", mode)
    return _real_compile(source, filename, mode, *a, **k)


def sh_exec(code, ns=None, *a):
    """exec of generated source (Construct.compile): runs under the same shims as the package"""
    if ns is None:
        raise EngineGap("exec without explicit namespace")
    ns.update(HOOKS)
    ns.update(INJECT)
    saved = (sys.modules.get("io"), sys.modules.get("struct"))
    sys.modules["io"] = ShIO()
    sys.modules["struct"] = ShStructMod()
    try:
        _real_exec(code, ns, *a)
    finally:
        sys.modules["io"], sys.modules["struct"] = saved
    ns.update(INJECT)
    # lookup tables of generated code (Enum/Mapping factories, Switch case tables): symbolic lookups fork per key
    from .tables import SymDict
    for k, v in list(ns.items()):
        if type(v) is dict and not k.startswith("__") and k not in ("linkedinstances", "linkedparsers", "linkedbuilders", "userfunction"):
            ns[k] = SymDict(v)
