"""symx.engine -- path exploration (fork-by-replay DFS) over z3.

Nothing in this file knows a construct class.  A *harness* is a Python callable that
creates symbolic inputs, runs real code on them and states obligations; `explore`
runs it once per feasible path.  Every data-dependent branch (`SymBool.__bool__`)
and every concretisation (`SymInt.__index__`) is a decision; decisions are recorded
and replayed to reach the next unexplored path.  At each new decision the solver is
asked which sides are feasible; at each obligation it is asked for a counterexample
(path condition AND NOT obligation).
"""
import os
import time
import z3


# Engine control exceptions derive from BaseException: the code under test contains
# `except Exception` and a bare `except:` and must not be able to swallow them.
class EngineSignal(BaseException):
    pass


class PathAbort(EngineSignal):
    """current path is infeasible / assumption false: drop it silently"""


class EngineGap(EngineSignal):
    """a symbolic value reached something the engine cannot model (C function, ...)"""


class BoundExceeded(EngineSignal):
    """a stated exploration bound (paths, forks per concretisation, steps) was hit"""


class Inconclusive(EngineSignal):
    """solver answered unknown / timed out"""


class Nondeterminism(EngineSignal):
    """replay of a decision prefix took a different route (harness not deterministic)"""


class Violation(EngineSignal):
    """an obligation has a counterexample; carries label and model"""

    def __init__(self, label, model_values, detail=None):
        super().__init__(label)
        self.label = label
        self.model_values = model_values
        self.detail = detail


_DUMP = {"dir": os.environ.get("SYMX_DUMP_SMT"), "n": 0, "limit": int(os.environ.get("SYMX_DUMP_LIMIT", "60")), "every": int(os.environ.get("SYMX_DUMP_EVERY", "7"))}


def _dump_query(solver, negated):
    """development aid (tools/solver_diff.py): write discharged obligations (path condition + negated obligation, expected unsat)
    as SMT-LIB2 so that other solvers can be asked the same question"""
    if not _DUMP["dir"]:
        return
    _DUMP["n"] += 1
    if _DUMP["n"] % _DUMP["every"] or _DUMP["n"] // _DUMP["every"] > _DUMP["limit"]:
        return
    solver.push()
    solver.add(negated)
    text = solver.to_smt2()
    solver.pop()
    with open(os.path.join(_DUMP["dir"], "q%d_%06d.smt2" % (os.getpid(), _DUMP["n"])), "w") as f:
        f.write("; expected: unsat\n" + text)


B, P, A = "b", "p", "a"   # decision kinds: branch, pick (concretise), assume


class Engine:
    def __init__(self, query_timeout_ms=20000, max_picks=300):
        self.solver = z3.Solver()
        self.solver.set("timeout", query_timeout_ms)
        self.levels = 0            # solver push levels == entries of the trace on the solver
        self.prefix = []           # decisions to replay
        self.trace = []            # decisions of the current path: [kind, decision, alt_feasible, payload]
        self.model = None          # a model of the current path condition, if known
        self.nq = 0
        self.tsolve = 0.0
        self.inputs = []           # (name, kind, terms) declared on this path (for model extraction)
        self.observations = []     # (label, value) recorded on this path
        self.uf_apps = []          # (name, arg term | None, out term, nbytes_in, nbytes_out) on this path
        self.counters = {}
        self.max_picks = max_picks
        self.steps = 0
        self.max_steps = 200000
        self.obligations = 0
        self.branches = 0

    # -- solver stack -----------------------------------------------------------------------
    def _push(self, c):
        self.solver.push()
        self.solver.add(c)
        self.levels += 1

    def _pop_to(self, n):
        if self.levels > n:
            self.solver.pop(self.levels - n)
            self.levels = n

    def _check(self, *extra):
        self.nq += 1
        t = time.time()
        if extra:
            self.solver.push()
            for c in extra:
                self.solver.add(c)
        r = self.solver.check()
        m = self.solver.model() if r == z3.sat else None
        if extra:
            self.solver.pop()
        self.tsolve += time.time() - t
        if r == z3.unknown:
            raise Inconclusive("solver: %s" % self.solver.reason_unknown())
        return m

    def _need_model(self):
        if self.model is None:
            self.model = self._check()
            if self.model is None:
                raise PathAbort("path condition unsatisfiable")
        return self.model

    def _eval_bool(self, cond):
        v = self._need_model().eval(cond, model_completion=True)
        if z3.is_true(v):
            return True
        if z3.is_false(v):
            return False
        v = z3.simplify(v)
        if z3.is_true(v):
            return True
        if z3.is_false(v):
            return False
        raise Inconclusive("model evaluation did not reduce: %s" % v)

    # -- decisions ----------------------------------------------------------------------------
    def _step(self):
        self.steps += 1
        if self.steps > self.max_steps:
            raise BoundExceeded("more than %d decisions on one path" % self.max_steps)

    def assume(self, cond):
        """add a constraint without forking"""
        if isinstance(cond, bool):
            if not cond:
                raise PathAbort("assume(False)")
            return
        self._step()
        i = len(self.trace)
        if i < len(self.prefix):
            if self.prefix[i][0] != A:
                raise Nondeterminism("assume at %d, expected %r" % (i, self.prefix[i][0]))
            self.trace.append([A, True, False, None])
            if i >= self.levels:
                self._push(cond)
                self.model = None
            return
        self.trace.append([A, True, False, None])
        self._push(cond)
        if self.model is not None:
            try:
                if not self._eval_bool(cond):
                    self.model = None
            except Inconclusive:
                self.model = None
        if self.model is None:
            self.model = self._check()
            if self.model is None:
                raise PathAbort("assumption unsatisfiable")

    def branch(self, cond):
        if isinstance(cond, bool):
            return cond
        cond = z3.simplify(cond)
        if z3.is_true(cond):
            return True
        if z3.is_false(cond):
            return False
        self._step()
        i = len(self.trace)
        if i < len(self.prefix):
            k, d, _, _ = self.prefix[i]
            if k != B:
                raise Nondeterminism("branch at %d, expected %r" % (i, k))
            self.trace.append([B, d, False, None])
            if i >= self.levels:
                self._push(cond if d else z3.Not(cond))
                self.model = None
            return d
        self.branches += 1
        d = self._eval_bool(cond)             # side the known model takes: feasible for free
        taken, other = (cond, z3.Not(cond)) if d else (z3.Not(cond), cond)
        m2 = self._check(other)
        self.trace.append([B, d, m2 is not None, None])
        self._push(taken)
        return d

    def pick(self, term, as_signed=True, prefer=()):
        """concretise a bit-vector term: returns a feasible value; the alternative
        (term != value) is explored on another path.  `prefer`: values tried first (interval ends of a
        domain too large to enumerate, so that the extremes are among the paths explored before the bound is hit)."""
        self._step()
        i = len(self.trace)
        if i < len(self.prefix):
            k, d, _, val = self.prefix[i]
            if k != P:
                raise Nondeterminism("pick at %d, expected %r" % (i, k))
            self.trace.append([P, d, False, val])
            if i >= self.levels:
                self._push(term == val if d else term != val)
                self.model = None
            return val, d
        val = None
        for pv in prefer:
            if self._check(term == pv) is not None:
                val = pv
                self.model = None          # the cached model need not agree with the preferred value
                break
        if val is None:
            v = self._need_model().eval(term, model_completion=True)
            val = v.as_signed_long() if as_signed else v.as_long()
        m2 = self._check(term != val)
        self.trace.append([P, True, m2 is not None, val])
        self._push(term == val)
        return val, True

    # -- obligations --------------------------------------------------------------------------
    def prove(self, label, cond):
        """obligation: cond must hold for every model of the path condition"""
        self.obligations += 1
        if isinstance(cond, bool):
            if cond:
                return
            m = self._need_model()
            raise Violation(label, self.extract(m))
        cond = z3.simplify(cond)
        if z3.is_true(cond):
            return
        m = self._check(z3.Not(cond))
        if m is not None:
            raise Violation(label, self.extract(m))
        _dump_query(self.solver, z3.Not(cond))

    def feasible(self, cond):
        """is PC and cond satisfiable? (no fork, no constraint added)"""
        if isinstance(cond, bool):
            return cond
        return self._check(cond) is not None

    def extract(self, m):
        out = {}
        for name, kind, payload in self.inputs:
            if kind == "int":
                out[name] = m.eval(payload, model_completion=True).as_signed_long()
            elif kind == "bool":
                out[name] = bool(z3.is_true(m.eval(payload, model_completion=True)))
            elif kind == "bytes":
                out[name] = bytes(m.eval(t, model_completion=True).as_long() & 0xFF for t in payload).hex()
            elif kind == "str":
                out[name] = [m.eval(t, model_completion=True).as_long() for t in payload]
            elif kind == "const":
                out[name] = payload
        if self.uf_apps:
            tab = {}
            for name, arg, res, nin, nout in self.uf_apps:
                a = "" if arg is None else "%0*x" % (2 * nin, m.eval(arg, model_completion=True).as_long())
                r = "%0*x" % (2 * nout, m.eval(res, model_completion=True).as_long())
                tab.setdefault(name, {})[a] = r
            out["__uf__"] = tab
        return out

    def fresh_name(self, base):
        n = self.counters.get(base, 0)
        self.counters[base] = n + 1
        return base if n == 0 else "%s#%d" % (base, n)


ENGINE = None


def current():
    return ENGINE


class PathResult:
    __slots__ = ("status", "value", "decisions", "model_values", "observations", "error")


def explore(fn, max_paths=20000, query_timeout_ms=20000, deadline=None, on_path=None, max_picks=300):
    """Run fn() along every feasible path.  Returns a dict:
    status: 'ok' | 'violation' | 'inconclusive'
    """
    global ENGINE
    outer = ENGINE                     # re-entrant: lemma proofs run inside a path of another exploration
    eng = Engine(query_timeout_ms=query_timeout_ms, max_picks=max_picks)
    ENGINE = eng
    stack = []
    res = dict(status="ok", paths=0, aborted=0, queries=0, solver_s=0.0, decisions=0, obligations=0,
               branches=0, classes={}, witness=None, reason=None, violation=None)
    try:
        while True:
            eng.prefix = [list(e) for e in stack]
            eng.trace = []
            eng.inputs = []
            eng.observations = []
            eng.uf_apps = []
            eng.counters = {}
            eng.steps = 0
            eng._pop_to(max(0, len(stack) - 1))
            eng.model = None
            tag = None
            try:
                tag = fn()
                res["paths"] += 1
                if tag is not None:
                    res["classes"][tag] = res["classes"].get(tag, 0) + 1
                if on_path is not None:
                    on_path(eng, tag)
            except PathAbort:
                res["aborted"] += 1
            except Violation as v:
                res["status"] = "violation"
                res["violation"] = dict(label=v.label, model=v.model_values, detail=v.detail,
                                        observations=list(eng.observations))
                break
            res["decisions"] += max(0, len(eng.trace) - len(stack))
            if len(eng.trace) < len(stack):
                raise Nondeterminism("path ended before its replay prefix was consumed")
            for j in range(len(stack), len(eng.trace)):
                stack.append(list(eng.trace[j]))
            while stack and not stack[-1][2]:
                stack.pop()
            if not stack:
                break
            top = stack[-1]
            stack[-1] = [top[0], not top[1], False, top[3]]
            if res["paths"] + res["aborted"] >= max_paths:
                raise BoundExceeded("more than %d paths" % max_paths)
            if deadline is not None and time.time() > deadline:
                raise Inconclusive("instance time budget exhausted")
    except (EngineGap, BoundExceeded, Inconclusive, Nondeterminism) as e:
        res["status"] = "inconclusive"
        res["reason"] = "%s: %s" % (type(e).__name__, e)
    finally:
        res["queries"] = eng.nq
        res["solver_s"] = eng.tsolve
        res["obligations"] = eng.obligations
        res["branches"] = eng.branches
        ENGINE = outer
    return res
