"""pytest plugin: run the repository's own tests against the *instrumented* copy with concrete
values (conformance gate, DESIGN 5.3).  Usage: pytest -p symx.gate_plugin ..."""
import os
import sys


def pytest_configure(config):
    from symx import loader
    root = os.environ.get("SYMX_ROOT", "/repo")
    copy = loader.load_instrumented(root)
    for k in list(sys.modules):
        if k == "construct" or k.startswith("construct."):
            del sys.modules[k]
    sys.modules.update(copy.modules)
    config._symx_copy = copy
