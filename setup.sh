#!/bin/sh
# Builds the overlay venv used by every check: /venv's interpreter (the one the
# repository's test suite runs on) + z3-solver from the offline wheelhouse.
set -e
cd "$(dirname "$0")"
if [ ! -x .venv/bin/python ] || ! .venv/bin/python -c "import z3" 2>/dev/null; then
    rm -rf .venv
    /venv/bin/python -m venv .venv
    SP=$(.venv/bin/python -c "import sysconfig; print(sysconfig.get_paths()['purelib'])")
    echo "import site; site.addsitedir('/venv/lib/python3.12/site-packages')" > "$SP/_overlay.pth"
    PIP_NO_INDEX=1 .venv/bin/python -m pip install -q --no-index --find-links /opt/veriftools/wheels z3-solver
fi
.venv/bin/python -c "import z3; print('z3', z3.get_version_string())"
mkdir -p evidence replays
